//! C20: `PatternSet::new` / `PatternSet::is_match` through the public API of s3s-policy.
//! (The private matcher itself is checked on larger sizes in-crate: /verif/kani/incrate/policy_pattern.rs.)
use crate::stubs::as_str;
use s3s_policy::pattern::PatternSet;

/// Reference written from the documented semantics ("*" any possibly empty sequence, "?" any single
/// character, every other character itself), as a table: m[i][j] <=> pattern[i..] matches input[j..].
/// Characters are bytes here; callers restrict bytes to ASCII, where the two coincide.
fn ref_match(p: &[u8], s: &[u8]) -> bool {
    let pl = p.len();
    let sl = s.len();
    let mut m = [[false; 5]; 5];
    let mut i = pl + 1;
    while i > 0 {
        i -= 1;
        let mut j = sl + 1;
        while j > 0 {
            j -= 1;
            m[i][j] = if i == pl {
                j == sl
            } else if p[i] == b'*' {
                m[i + 1][j] || (j < sl && m[i][j + 1])
            } else {
                j < sl && (p[i] == b'?' || p[i] == s[j]) && m[i + 1][j + 1]
            };
        }
    }
    m[0][0]
}

fn any_ascii<const N: usize>() -> [u8; N] {
    let a: [u8; N] = kani::any();
    let mut k = 0;
    while k < N {
        kani::assume(a[k] < 128);
        k += 1;
    }
    a
}

/// One pattern of P ASCII bytes, input of N ASCII bytes: the set is accepted and matches iff the pattern does.
fn one<const P: usize, const N: usize>() {
    let p: [u8; P] = any_ascii();
    let s: [u8; N] = any_ascii();
    let set = match PatternSet::new([as_str(&p)]) {
        Ok(x) => x,
        Err(_) => panic!("a non-empty pattern was refused"),
    };
    let got = set.is_match(as_str(&s));
    assert!(got == ref_match(&p, &s));
    core::mem::forget(set);
}

/// Two patterns of P and Q ASCII bytes, input of N ASCII bytes: the set matches iff one of the two does.
fn two<const P: usize, const Q: usize, const N: usize>() {
    let p: [u8; P] = any_ascii();
    let q: [u8; Q] = any_ascii();
    let s: [u8; N] = any_ascii();
    let set = match PatternSet::new([as_str(&p), as_str(&q)]) {
        Ok(x) => x,
        Err(_) => panic!("non-empty patterns were refused"),
    };
    let got = set.is_match(as_str(&s));
    assert!(got == (ref_match(&p, &s) || ref_match(&q, &s)));
    core::mem::forget(set);
}

// One call per harness: `PatternSet::new` (collect into Result<Vec<_>, _>) costs ~40 s of CBMC per call and
// several calls in one harness exceeded 8 GB.  unwind: matcher loop <= (N+1)*(P+1)+1 = 10, reference 3.
macro_rules! one_h {
    ($name:ident, $p:expr, $n:expr) => {
        #[kani::proof]
        #[kani::unwind(11)]
        fn $name() {
            one::<$p, $n>();
            kani::cover!(true);
        }
    };
}
macro_rules! two_h {
    ($name:ident, $p:expr, $q:expr, $n:expr) => {
        #[kani::proof]
        #[kani::unwind(11)]
        fn $name() {
            two::<$p, $q, $n>();
            kani::cover!(true);
        }
    };
}
one_h!(c20_set_one_p1_n1, 1, 1);
one_h!(c20_set_one_p2_n2, 2, 2);
// MEASURED: all four two-pattern harnesses with symbolic pattern bytes run out of memory at 8 GB (after ~360 s);
// c20_set_two_concrete_n2 (concrete patterns, symbolic input) ran out of memory at 12 GB after 345 s as well.
// None of them is listed in the spec file: "a set matches iff one of its patterns does" is claimed by Kani only for
// sets of 0 and 1 patterns (is_match is a plain `for` over the patterns, read it).
two_h!(c20_set_two_p1_p1_n1, 1, 1, 1);
two_h!(c20_set_two_p1_p2_n2, 1, 2, 2);
two_h!(c20_set_two_p2_p1_n2, 2, 1, 2);
two_h!(c20_set_two_p2_p2_n2, 2, 2, 2);

/// Two CONCRETE patterns ("a*", "?b"), symbolic input of N ASCII bytes: the set matches iff one of the two does.
/// (With symbolic pattern bytes the two-pattern harnesses above run out of memory at 8 GB.)
fn two_concrete<const N: usize>() {
    let s: [u8; N] = any_ascii();
    let set = match PatternSet::new(["a*", "?b"]) {
        Ok(x) => x,
        Err(_) => panic!("non-empty patterns were refused"),
    };
    let got = set.is_match(as_str(&s));
    assert!(got == (ref_match(b"a*", &s) || ref_match(b"?b", &s)));
    core::mem::forget(set);
}

#[kani::proof]
#[kani::unwind(11)]
fn c20_set_two_concrete_n2() {
    two_concrete::<2>();
    kani::cover!(true);
}

/// The empty set matches nothing (no pattern of the set matches); the one-element list [""] is refused.
#[kani::proof]
#[kani::unwind(8)]
fn c20_set_empty_set_and_empty_pattern() {
    let s: [u8; 2] = any_ascii();
    let none: [&str; 0] = [];
    match PatternSet::new(none) {
        Ok(set) => {
            assert!(!set.is_match(as_str(&s)));
            assert!(!set.is_match(""));
            core::mem::forget(set);
        }
        Err(_) => panic!("the empty list of patterns is not an empty pattern"),
    }
    let r1 = PatternSet::new([""]);
    assert!(r1.is_err());
    core::mem::forget(r1);
    kani::cover!(true);
}

/// An empty pattern is refused wherever it stands in the list (first, last), whatever the other pattern
/// (1 ASCII byte) is.
#[kani::proof]
#[kani::unwind(8)]
fn c20_set_empty_pattern_first() {
    let p: [u8; 1] = any_ascii();
    let r2 = PatternSet::new(["", as_str(&p)]);
    assert!(r2.is_err());
    core::mem::forget(r2);
    kani::cover!(true);
}

#[kani::proof]
#[kani::unwind(8)]
fn c20_set_empty_pattern_last() {
    let p: [u8; 1] = any_ascii();
    let r3 = PatternSet::new([as_str(&p), ""]);
    assert!(r3.is_err());
    core::mem::forget(r3);
    kani::cover!(true);
}

/// FINDING (C20, "'?' any single character"): the matcher works on bytes.  The input "é" is ONE character
/// (U+00E9, UTF-8 0xC3 0xA9): the pattern "?" must match it and the pattern "??" must not.
/// The implementation answers the opposite in both cases.  This harness asserts the property and is expected
/// to FAIL on the unchanged tree.
#[kani::proof]
#[kani::unwind(8)]
fn c20_set_finding_question_mark_is_bytewise() {
    let e = [0xC3u8, 0xA9];
    let input = as_str(&e);
    let one = PatternSet::new(["?"]).unwrap();
    let two = PatternSet::new(["??"]).unwrap();
    let m1 = one.is_match(input);
    let m2 = two.is_match(input);
    core::mem::forget(one);
    core::mem::forget(two);
    kani::cover!(true);
    assert!(m1, "\"?\" does not match the single character U+00E9");
    assert!(!m2, "\"??\" matches the single character U+00E9");
}

/// Same finding, general form: for every 2-byte UTF-8 character (U+0080..U+07FF) the pattern "?" must match.
/// Expected to FAIL on the unchanged tree.
#[kani::proof]
#[kani::unwind(8)]
fn c20_set_finding_question_mark_any_2byte_char() {
    let e: [u8; 2] = kani::any();
    kani::assume(e[0] >= 0xC2 && e[0] <= 0xDF && e[1] >= 0x80 && e[1] <= 0xBF);
    let one = PatternSet::new(["?"]).unwrap();
    let m1 = one.is_match(as_str(&e));
    core::mem::forget(one);
    kani::cover!(true);
    assert!(m1, "\"?\" does not match a single 2-byte character");
}
