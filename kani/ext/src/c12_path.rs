//! C12 (K1, K2, K4): `s3s::path` — addressing styles, bucket-name rules, key length.
//!
//! K1  `parse_path_style` / `parse_virtual_hosted_style`: Root / Bucket / Object by the position of the first
//!     inner '/', bucket and key verbatim (they re-concatenate to the input), trailing '/' after the bucket is
//!     Bucket, and the two styles agree on the same request.
//! K2  `check_bucket_name` between two reference predicates written from the AWS bucket naming rules.
//! K4  `check_key`: accepted iff at most 1024 bytes, alone and through both parsers.
use core::mem::forget;

use s3s::path::{ParseS3PathError, S3Path, check_bucket_name, check_key, parse_path_style, parse_virtual_hosted_style};

use crate::stubs::as_str;

// =============================================================================================
// K1: structure of the two parsers
// =============================================================================================

/// K1 alphabet: '/', '.', '%', '+', ' ', '?', '#', 'a' and U+00E9 (bytes 0xC3 0xA9, only as a whole char).
fn assume_path_alphabet(b: &[u8]) {
    let n = b.len();
    let mut i = 0;
    while i < n {
        let c = b[i];
        let ascii = c == b'/' || c == b'.' || c == b'%' || c == b'+' || c == b' ' || c == b'?' || c == b'#' || c == b'a';
        let lead = c == 0xC3 && i + 1 < n && b[i + 1] == 0xA9;
        let trail = c == 0xA9 && i > 0 && b[i - 1] == 0xC3;
        kani::assume(ascii || lead || trail);
        i += 1;
    }
}

/// `got[..]` is exactly `want[from..to]` (position-wise; every loop runs to the concrete `want.len()`).
fn is_slice(got: &[u8], want: &[u8], from: usize, to: usize) -> bool {
    if from > to || to > want.len() || got.len() != to - from {
        return false;
    }
    let mut ok = true;
    let mut i = 0;
    while i < want.len() {
        if i < got.len() && got[i] != want[from + i] {
            ok = false;
        }
        i += 1;
    }
    ok
}

// --- stub of check_bucket_name: arbitrary verdict (fixed per harness run), records what it was asked ---------
static mut VERDICT: bool = false;
static mut CALLS: u32 = 0;
static mut SEEN_LEN: usize = 0;
static mut SEEN_PTR: *const u8 = core::ptr::null();

/// Replacement for `s3s::path::check_bucket_name` in the structure harnesses: the verdict is an arbitrary
/// boolean chosen by the harness (so the structure is proved for *every* possible naming rule), and the name
/// that was submitted (address and length) is recorded so that the harness can check that it is exactly the
/// bucket part of the input.
fn arbitrary_bucket_verdict(name: &str) -> bool {
    unsafe {
        CALLS += 1;
        SEEN_LEN = name.len();
        SEEN_PTR = name.as_ptr();
        VERDICT
    }
}

fn set_verdict(v: bool) {
    unsafe {
        VERDICT = v;
        CALLS = 0;
        SEEN_LEN = 0;
        SEEN_PTR = core::ptr::null();
    }
}

/// the (single) name submitted to the naming rules is the sub-slice `buf[from..to]` itself
fn checked_name_is(buf: &[u8], from: usize, to: usize) -> bool {
    if from > to || to > buf.len() {
        return false;
    }
    // (an empty name has no address worth comparing)
    unsafe { CALLS == 1 && SEEN_LEN == to - from && (from == to || SEEN_PTR == buf.as_ptr().wrapping_add(from)) }
}

fn calls() -> u32 {
    unsafe { CALLS }
}

/// Path-style: every `uri_path` of exactly N bytes over the K1 alphabet, every verdict of the naming rules.
/// Reference (from the property / the AWS REST documentation): `"/" [ bucket [ "/" [ key ] ] ]`, the bucket
/// ends at the first '/' after the leading one, the key is everything after it, verbatim.
fn path_style_structure<const N: usize>() {
    let p: [u8; N] = kani::any();
    assume_path_alphabet(&p);
    let verdict: bool = kani::any();
    set_verdict(verdict);

    let got = parse_path_style(as_str(&p));
    let mut seen_trailing_slash_bucket = false;
    let mut seen_rich_key = false;

    if N == 0 || p[0] != b'/' {
        assert!(matches!(&got, Err(ParseS3PathError::InvalidPath)));
        assert!(calls() == 0);
    } else if N == 1 {
        assert!(matches!(&got, Ok(S3Path::Root)));
        assert!(calls() == 0);
    } else {
        // s = position of the first inner '/', N if there is none
        let mut s = N;
        let mut i = N;
        while i > 1 {
            i -= 1;
            if p[i] == b'/' {
                s = i;
            }
        }
        let has_key = s + 1 < N;
        // the name submitted to the naming rules is exactly the bucket part p[1..s]
        assert!(checked_name_is(&p, 1, s));
        if !verdict {
            assert!(matches!(&got, Err(ParseS3PathError::InvalidBucketName)));
        } else {
            match &got {
                Ok(S3Path::Bucket { bucket }) => {
                    assert!(!has_key);
                    assert!(is_slice(bucket.as_bytes(), &p, 1, s));
                    seen_trailing_slash_bucket = s + 1 == N; // "/b/" form
                }
                Ok(S3Path::Object { bucket, key }) => {
                    assert!(has_key);
                    assert!(is_slice(bucket.as_bytes(), &p, 1, s));
                    assert!(is_slice(key.as_bytes(), &p, s + 1, N));
                    // "/" + bucket + "/" + key is the input again
                    assert!(1 + bucket.len() + 1 + key.len() == N);
                    // a key that has a leading slash and ends in the non-ASCII char
                    seen_rich_key = key.as_bytes()[0] == b'/' && key.as_bytes()[key.len() - 1] == 0xA9;
                }
                _ => panic!("Root / Err for a path with a bucket part and an accepting verdict"),
            }
        }
    }
    forget(got);
    kani::cover!(N < 3 || seen_trailing_slash_bucket);
    kani::cover!(N < 6 || seen_rich_key);
}

macro_rules! path_style_harness {
    ($name:ident, $n:expr, $unwind:expr) => {
        #[kani::proof]
        #[kani::unwind($unwind)]
        #[kani::stub(core::slice::memchr::memchr, crate::stubs::naive_memchr)]
        #[kani::stub(s3s::path::check_bucket_name, arbitrary_bucket_verdict)]
        fn $name() {
            path_style_structure::<$n>();
        }
    };
}
// unwind: every loop (naive memchr, CharSearcher::next_match, the reference) is bounded by N + 1
path_style_harness!(c12_path_style_structure_0, 0, 4);
path_style_harness!(c12_path_style_structure_1, 1, 4);
path_style_harness!(c12_path_style_structure_2, 2, 4);
path_style_harness!(c12_path_style_structure_3, 3, 5);
path_style_harness!(c12_path_style_structure_4, 4, 6);
path_style_harness!(c12_path_style_structure_5, 5, 7);
path_style_harness!(c12_path_style_structure_6, 6, 8);
path_style_harness!(c12_path_style_structure_7, 7, 9);
path_style_harness!(c12_path_style_structure_8, 8, 10);

/// Virtual-hosted-style with a bucket from the Host header: every bucket of M bytes (K1 alphabet), every
/// `uri_path` of N bytes, every verdict.  Reference: `"/" [ key ]`, the key is everything after the leading
/// '/', verbatim (inner and leading slashes included), the bucket is the host's bucket verbatim.
fn vh_style_structure<const M: usize, const N: usize>() {
    let b: [u8; M] = kani::any();
    assume_path_alphabet(&b);
    let p: [u8; N] = kani::any();
    assume_path_alphabet(&p);
    let verdict: bool = kani::any();
    set_verdict(verdict);

    let got = parse_virtual_hosted_style(Some(as_str(&b)), as_str(&p));
    let mut seen_slashes = false;

    if N == 0 || p[0] != b'/' {
        assert!(matches!(&got, Err(ParseS3PathError::InvalidPath)));
    } else {
        assert!(checked_name_is(&b, 0, M));
        if !verdict {
            assert!(matches!(&got, Err(ParseS3PathError::InvalidBucketName)));
        } else {
            match &got {
                Ok(S3Path::Bucket { bucket }) => {
                    assert!(N == 1);
                    assert!(is_slice(bucket.as_bytes(), &b, 0, M));
                }
                Ok(S3Path::Object { bucket, key }) => {
                    assert!(N > 1);
                    assert!(is_slice(bucket.as_bytes(), &b, 0, M));
                    assert!(is_slice(key.as_bytes(), &p, 1, N));
                    seen_slashes = key.as_bytes()[0] == b'/' && key.as_bytes()[key.len() - 1] == b'/';
                }
                _ => panic!("Root / Err for a host bucket with an accepting verdict"),
            }
        }
    }
    forget(got);
    kani::cover!(N < 3 || seen_slashes);
}

macro_rules! vh_style_harness {
    ($name:ident, $m:expr, $n:expr, $unwind:expr) => {
        #[kani::proof]
        #[kani::unwind($unwind)]
        #[kani::stub(core::slice::memchr::memchr, crate::stubs::naive_memchr)]
        #[kani::stub(s3s::path::check_bucket_name, arbitrary_bucket_verdict)]
        fn $name() {
            vh_style_structure::<$m, $n>();
        }
    };
}
vh_style_harness!(c12_vh_style_structure_3_0, 3, 0, 5);
vh_style_harness!(c12_vh_style_structure_3_1, 3, 1, 5);
vh_style_harness!(c12_vh_style_structure_3_4, 3, 4, 6);
vh_style_harness!(c12_vh_style_structure_3_6, 3, 6, 8);
vh_style_harness!(c12_vh_style_structure_3_8, 3, 8, 10);

/// Without a bucket from the host (`None`), virtual-hosted-style parsing *is* path-style parsing.
fn vh_none_is_path_style<const N: usize>() {
    let p: [u8; N] = kani::any();
    assume_path_alphabet(&p);
    set_verdict(kani::any());
    let a = parse_virtual_hosted_style(None, as_str(&p));
    let b = parse_path_style(as_str(&p));
    assert!(same_result(&a, &b));
    forget(a);
    forget(b);
    kani::cover!(true);
}

fn same_bytes(a: &[u8], b: &[u8]) -> bool {
    is_slice(a, b, 0, b.len())
}

/// field-wise equality of two parser results
fn same_result(a: &Result<S3Path, ParseS3PathError>, b: &Result<S3Path, ParseS3PathError>) -> bool {
    match (a, b) {
        (Ok(S3Path::Root), Ok(S3Path::Root)) => true,
        (Ok(S3Path::Bucket { bucket: x }), Ok(S3Path::Bucket { bucket: y })) => same_bytes(x.as_bytes(), y.as_bytes()),
        (Ok(S3Path::Object { bucket: x, key: k }), Ok(S3Path::Object { bucket: y, key: l })) => {
            same_bytes(x.as_bytes(), y.as_bytes()) && same_bytes(k.as_bytes(), l.as_bytes())
        }
        (Err(ParseS3PathError::InvalidPath), Err(ParseS3PathError::InvalidPath)) => true,
        (Err(ParseS3PathError::InvalidBucketName), Err(ParseS3PathError::InvalidBucketName)) => true,
        (Err(ParseS3PathError::KeyTooLong), Err(ParseS3PathError::KeyTooLong)) => true,
        _ => false,
    }
}

#[kani::proof]
#[kani::unwind(7)]
#[kani::stub(core::slice::memchr::memchr, crate::stubs::naive_memchr)]
#[kani::stub(s3s::path::check_bucket_name, arbitrary_bucket_verdict)]
fn c12_vh_none_is_path_style_5() {
    vh_none_is_path_style::<5>();
}

/// EQUIVALENCE of the two styles: for every bucket `b` of M bytes without '/' (a name containing '/' breaks the
/// character rule, see K2) and every non-empty key `k` of N bytes over the K1 alphabet, and every verdict of the
/// naming rules on `b`:   parse_virtual_hosted_style(Some(b), "/" + k)  ==  parse_path_style("/" + b + "/" + k)
/// and, when the name is accepted, both are Object { bucket: b, key: k } — the key byte for byte.
fn styles_agree<const M: usize, const N: usize, const VH: usize, const PS: usize>() {
    assert!(VH == 1 + N && PS == 2 + M + N && N >= 1);
    let b: [u8; M] = kani::any();
    assume_path_alphabet(&b);
    let k: [u8; N] = kani::any();
    assume_path_alphabet(&k);
    let mut vh = [b'/'; VH];
    let mut ps = [b'/'; PS];
    let mut i = 0;
    while i < M {
        kani::assume(b[i] != b'/');
        ps[1 + i] = b[i];
        i += 1;
    }
    let mut i = 0;
    while i < N {
        vh[1 + i] = k[i];
        ps[2 + M + i] = k[i];
        i += 1;
    }
    let verdict: bool = kani::any();

    set_verdict(verdict);
    let r_vh = parse_virtual_hosted_style(Some(as_str(&b)), as_str(&vh));
    assert!(checked_name_is(&b, 0, M));
    set_verdict(verdict);
    let r_ps = parse_path_style(as_str(&ps));
    assert!(checked_name_is(&ps, 1, 1 + M));

    assert!(same_result(&r_vh, &r_ps), "the two addressing styles disagree");
    if verdict {
        match &r_vh {
            Ok(S3Path::Object { bucket, key }) => {
                assert!(same_bytes(bucket.as_bytes(), &b));
                assert!(same_bytes(key.as_bytes(), &k));
                kani::cover!(N < 3 || (k[0] == b'/' && k[N - 2] == 0xC3 && k[N - 1] == 0xA9));
            }
            _ => panic!("an accepted bucket with a non-empty key is an Object"),
        }
    } else {
        assert!(matches!(&r_vh, Err(ParseS3PathError::InvalidBucketName)));
    }
    forget(r_vh);
    forget(r_ps);
    kani::cover!(true);
}

macro_rules! styles_agree_harness {
    ($name:ident, $m:expr, $n:expr, $unwind:expr) => {
        #[kani::proof]
        #[kani::unwind($unwind)]
        #[kani::stub(core::slice::memchr::memchr, crate::stubs::naive_memchr)]
        #[kani::stub(s3s::path::check_bucket_name, arbitrary_bucket_verdict)]
        fn $name() {
            styles_agree::<$m, $n, { 1 + $n }, { 2 + $m + $n }>();
        }
    };
}
styles_agree_harness!(c12_styles_agree_3_1, 3, 1, 8);
styles_agree_harness!(c12_styles_agree_3_3, 3, 3, 10);
styles_agree_harness!(c12_styles_agree_3_5, 3, 5, 12);
styles_agree_harness!(c12_styles_agree_3_7, 3, 7, 14);
styles_agree_harness!(c12_styles_agree_0_3, 0, 3, 7);
styles_agree_harness!(c12_styles_agree_5_4, 5, 4, 13);

// --- the same with the REAL naming rules and the fixed valid bucket "bkt" ---------------------------------

/// Real `check_bucket_name`, bucket "bkt": "/bkt" and "/bkt/" are the bucket, "/bkt/" + k (k of N >= 1 bytes,
/// K1 alphabet) is Object{bkt, k} in both styles, key byte for byte.
fn real_bkt<const N: usize, const VH: usize, const PS: usize>() {
    assert!(VH == 1 + N && PS == 5 + N);
    let k: [u8; N] = kani::any();
    assume_path_alphabet(&k);
    let mut vh = [b'/'; VH];
    let mut ps = [b'/'; PS];
    ps[1] = b'b';
    ps[2] = b'k';
    ps[3] = b't';
    let mut i = 0;
    while i < N {
        vh[1 + i] = k[i];
        ps[5 + i] = k[i];
        i += 1;
    }
    let r_vh = parse_virtual_hosted_style(Some("bkt"), as_str(&vh));
    let r_ps = parse_path_style(as_str(&ps));
    assert!(same_result(&r_vh, &r_ps), "the two addressing styles disagree");
    if N == 0 {
        match &r_ps {
            Ok(S3Path::Bucket { bucket }) => assert!(same_bytes(bucket.as_bytes(), b"bkt")),
            _ => panic!("\"/bkt/\" is the bucket"),
        }
        // and without the trailing slash
        let r2 = parse_path_style(as_str(&ps[..4]));
        assert!(same_result(&r2, &r_ps));
        forget(r2);
    } else {
        match &r_ps {
            Ok(S3Path::Object { bucket, key }) => {
                assert!(same_bytes(bucket.as_bytes(), b"bkt"));
                assert!(same_bytes(key.as_bytes(), &k));
            }
            _ => panic!("\"/bkt/k\" is an object"),
        }
    }
    forget(r_vh);
    forget(r_ps);
    kani::cover!(true);
}

macro_rules! real_bkt_harness {
    ($name:ident, $n:expr, $unwind:expr) => {
        #[kani::proof]
        #[kani::unwind($unwind)]
        #[kani::stub(core::slice::memchr::memchr, crate::stubs::naive_memchr)]
        fn $name() {
            real_bkt::<$n, { 1 + $n }, { 5 + $n }>();
        }
    };
}
real_bkt_harness!(c12_real_bkt_0, 0, 12);
real_bkt_harness!(c12_real_bkt_2, 2, 12);
real_bkt_harness!(c12_real_bkt_4, 4, 12);

// =============================================================================================
// K4: key length
// =============================================================================================

/// `check_key` accepts exactly the keys of at most 1024 bytes: every length 0..=4096 (symbolic length of a
/// fixed buffer; `check_key` is a `const fn` of the length only).
#[kani::proof]
fn c12_check_key_len() {
    let buf = [b'k'; 4096];
    let n: usize = kani::any();
    kani::assume(n <= 4096);
    let s = as_str(&buf[..n]);
    assert!(check_key(s) == (n <= 1024));
    kani::cover!(n == 1024 && check_key(s));
    kani::cover!(n == 1025 && !check_key(s));
}

/// Through both parsers (naming rules stubbed by an arbitrary verdict; a refused name is InvalidBucketName in
/// both): bucket "bkt", key of L bytes ('k' with symbolic first, middle and last byte over the K1 ASCII
/// alphabet): accepted verbatim iff L <= 1024, else KeyTooLong.
fn key_limit<const L: usize, const VH: usize, const PS: usize>() {
    assert!(VH == 1 + L && PS == 5 + L && L >= 3);
    let e: [u8; 3] = kani::any();
    assume_path_alphabet(&e);
    kani::assume(e[0] < 128 && e[1] < 128 && e[2] < 128);
    let mut vh = [b'k'; VH];
    let mut ps = [b'k'; PS];
    vh[0] = b'/';
    ps[0] = b'/';
    ps[1] = b'b';
    ps[2] = b'k';
    ps[3] = b't';
    ps[4] = b'/';
    vh[1] = e[0];
    vh[1 + L / 2] = e[1];
    vh[L] = e[2];
    ps[5] = e[0];
    ps[5 + L / 2] = e[1];
    ps[4 + L] = e[2];
    let verdict: bool = kani::any();
    set_verdict(verdict);
    let r_vh = parse_virtual_hosted_style(Some("bkt"), as_str(&vh));
    set_verdict(verdict);
    let r_ps = parse_path_style(as_str(&ps));
    assert!(checked_name_is(&ps, 1, 4));
    if !verdict {
        assert!(matches!(&r_vh, Err(ParseS3PathError::InvalidBucketName)));
        assert!(matches!(&r_ps, Err(ParseS3PathError::InvalidBucketName)));
    } else if L <= 1024 {
        match (&r_vh, &r_ps) {
            (Ok(S3Path::Object { bucket: b1, key: k1 }), Ok(S3Path::Object { bucket: b2, key: k2 })) => {
                assert!(same_bytes(b1.as_bytes(), b"bkt") && same_bytes(b2.as_bytes(), b"bkt"));
                assert!(k1.len() == L && k2.len() == L);
                let (k1, k2) = (k1.as_bytes(), k2.as_bytes());
                assert!(k1[0] == e[0] && k1[L / 2] == e[1] && k1[L - 1] == e[2]);
                assert!(k2[0] == e[0] && k2[L / 2] == e[1] && k2[L - 1] == e[2]);
                assert!(k1[1] == b'k' && k2[L - 2] == b'k');
            }
            _ => panic!("a key of at most 1024 bytes is refused"),
        }
    } else {
        assert!(matches!(&r_vh, Err(ParseS3PathError::KeyTooLong)));
        assert!(matches!(&r_ps, Err(ParseS3PathError::KeyTooLong)));
    }
    forget(r_vh);
    forget(r_ps);
    kani::cover!(true);
}

macro_rules! key_limit_harness {
    ($name:ident, $l:expr) => {
        #[kani::proof]
        #[kani::unwind(8)]
        #[kani::stub(core::slice::memchr::memchr, crate::stubs::naive_memchr)]
        #[kani::stub(s3s::path::check_bucket_name, arbitrary_bucket_verdict)]
        fn $name() {
            key_limit::<$l, { 1 + $l }, { 5 + $l }>();
        }
    };
}
key_limit_harness!(c12_key_limit_1023, 1023);
key_limit_harness!(c12_key_limit_1024, 1024);
key_limit_harness!(c12_key_limit_1025, 1025);
