//! C12 (K2): `s3s::path::check_bucket_name` between two reference predicates written from the AWS
//! "General purpose bucket naming rules" (S3 user guide, bucketnamingrules.html) — NOT from the implementation.
//!
//! Obligation (property C12, exactly):   breaks the CORE rules  =>  refused
//!                                        satisfies the COMPLETE rules  =>  accepted
//! Between the two the implementation is free (e.g. "a..b", "xn--a", "256.1.1.1", "01.1.1.1").
use core::net::{AddrParseError, IpAddr, Ipv4Addr};

use s3s::path::check_bucket_name;

use crate::stubs::as_str;

fn is_lower(b: u8) -> bool {
    b >= b'a' && b <= b'z'
}
fn is_digit(b: u8) -> bool {
    b >= b'0' && b <= b'9'
}

/// Splits `n` at the dots into exactly four non-empty all-digit groups; returns for each group its
/// (start, len), or None if `n` does not have the shape  1*DIGIT "." 1*DIGIT "." 1*DIGIT "." 1*DIGIT.
fn dotted_quad(n: &[u8]) -> Option<[(usize, usize); 4]> {
    let mut g = [(0usize, 0usize); 4];
    let mut k = 0; // current group
    let mut i = 0;
    while i < n.len() {
        let c = n[i];
        if c == b'.' {
            if g[k].1 == 0 || k == 3 {
                return None;
            }
            k += 1;
            g[k] = (i + 1, 0);
        } else if is_digit(c) {
            g[k].1 += 1;
        } else {
            return None;
        }
        i += 1;
    }
    if k != 3 || g[3].1 == 0 {
        return None;
    }
    Some(g)
}

/// "formatted as an IP address" in the widest sense: four dot-separated groups of decimal digits
/// (what the AWS SDKs test with `(\d+\.){3}\d+`).  Used where being formatted as an IP *excuses* a refusal.
fn ip_formatted_loose(n: &[u8]) -> bool {
    dotted_quad(n).is_some()
}

/// An IPv4 address in the one spelling nobody disputes: four decimal octets 0..=255, 1-3 digits, no leading
/// zero (192.168.5.4).  Used where being an IP address *demands* a refusal.
fn ip_formatted_strict(n: &[u8]) -> bool {
    let Some(g) = dotted_quad(n) else { return false };
    let mut k = 0;
    while k < 4 {
        let (start, len) = g[k];
        if len > 3 {
            return false;
        }
        if len > 1 && n[start] == b'0' {
            return false;
        }
        let mut v: u32 = 0;
        let mut j = 0;
        while j < 3 {
            if j < len {
                v = v * 10 + (n[start + j] - b'0') as u32;
            }
            j += 1;
        }
        if v > 255 {
            return false;
        }
        k += 1;
    }
    true
}

fn starts_with(n: &[u8], p: &[u8]) -> bool {
    if n.len() < p.len() {
        return false;
    }
    let mut i = 0;
    while i < p.len() {
        if n[i] != p[i] {
            return false;
        }
        i += 1;
    }
    true
}

fn ends_with(n: &[u8], s: &[u8]) -> bool {
    if n.len() < s.len() {
        return false;
    }
    let off = n.len() - s.len();
    let mut i = 0;
    while i < s.len() {
        if n[off + i] != s[i] {
            return false;
        }
        i += 1;
    }
    true
}

/// CORE rules of the property statement: 3..=63 bytes; only lowercase letters, digits, '.' and '-';
/// begins and ends with a letter or digit; not an IPv4 address.
fn breaks_core_rules(n: &[u8]) -> bool {
    let len = n.len();
    if len < 3 || len > 63 {
        return true;
    }
    let mut i = 0;
    while i < len {
        let c = n[i];
        if !(is_lower(c) || is_digit(c) || c == b'.' || c == b'-') {
            return true;
        }
        i += 1;
    }
    if !(is_lower(n[0]) || is_digit(n[0])) {
        return true;
    }
    if !(is_lower(n[len - 1]) || is_digit(n[len - 1])) {
        return true;
    }
    ip_formatted_strict(n)
}

/// COMPLETE rules of the AWS user guide for general purpose buckets (all of them, as published):
/// the core rules, plus: no two adjacent periods; not formatted as an IP address (widest sense); must not
/// start with "xn--", "sthree-", "amzn-s3-demo-"; must not end with "-s3alias", "--ol-s3", ".mrap", "--x-s3",
/// "--table-s3".
fn satisfies_complete_rules(n: &[u8]) -> bool {
    let len = n.len();
    if len < 3 || len > 63 {
        return false;
    }
    let mut i = 0;
    while i < len {
        let c = n[i];
        if !(is_lower(c) || is_digit(c) || c == b'.' || c == b'-') {
            return false;
        }
        if c == b'.' && i + 1 < len && n[i + 1] == b'.' {
            return false;
        }
        i += 1;
    }
    if !(is_lower(n[0]) || is_digit(n[0])) {
        return false;
    }
    if !(is_lower(n[len - 1]) || is_digit(n[len - 1])) {
        return false;
    }
    if ip_formatted_loose(n) {
        return false;
    }
    if starts_with(n, b"xn--") || starts_with(n, b"sthree-") || starts_with(n, b"amzn-s3-demo-") {
        return false;
    }
    if ends_with(n, b"-s3alias")
        || ends_with(n, b"--ol-s3")
        || ends_with(n, b".mrap")
        || ends_with(n, b"--x-s3")
        || ends_with(n, b"--table-s3")
    {
        return false;
    }
    true
}

/// Stub for `<IpAddr as FromStr>::from_str` in the name harnesses: std's own IPv4 parser only.
/// Sound for this caller: `check_bucket_name` reaches the address parser only with names made of
/// [a-z0-9.-] (the character rule has already returned), and every textual IPv6 address contains ':'
/// (lemma harnesses `c12_lemma_ipv6_needs_colon_*` check that on std's real parser), so the IPv6 branch of
/// `IpAddr::from_str` (8 groups x embedded-IPv4 attempts: > 8 GB in CBMC) can never succeed there.
fn ipaddr_from_str_v4_only(s: &str) -> Result<IpAddr, AddrParseError> {
    match s.parse::<Ipv4Addr>() {
        Ok(a) => Ok(IpAddr::V4(a)),
        Err(e) => Err(e),
    }
}

fn check_against_rules(n: &[u8]) -> bool {
    let got = check_bucket_name(as_str(n));
    if breaks_core_rules(n) {
        assert!(!got, "a name that breaks the core S3 naming rules is accepted");
    }
    if satisfies_complete_rules(n) {
        assert!(got, "a name that is valid under the complete S3 naming rules is refused");
    }
    got
}

/// Every name of exactly N bytes over {a, 1, '.', '-', 'A', '_', 'x', 'n'}.
fn names<const N: usize>() {
    let n: [u8; N] = kani::any();
    let mut i = 0;
    while i < N {
        let c = n[i];
        kani::assume(c == b'a' || c == b'1' || c == b'.' || c == b'-' || c == b'A' || c == b'_' || c == b'x' || c == b'n');
        i += 1;
    }
    let got = check_against_rules(&n);
    kani::cover!(N < 3 || N > 63 || got);
    kani::cover!(!got);
}

macro_rules! names_harness {
    ($name:ident, $n:expr, $unwind:expr) => {
        #[kani::proof]
        #[kani::unwind($unwind)]
        #[kani::stub(core::slice::memchr::memchr, crate::stubs::naive_memchr)]
        #[kani::stub(<core::net::IpAddr as core::str::FromStr>::from_str, ipaddr_from_str_v4_only)]
        fn $name() {
            names::<$n>();
        }
    };
}
// unwind: std's address parser reads at most 8 IPv6 groups / 4 IPv4 octets / N digits; every other loop <= N
names_harness!(c12_bucket_name_len0, 0, 10);
names_harness!(c12_bucket_name_len1, 1, 10);
names_harness!(c12_bucket_name_len2, 2, 10);
names_harness!(c12_bucket_name_len3, 3, 10);
names_harness!(c12_bucket_name_len4, 4, 10);
names_harness!(c12_bucket_name_len5, 5, 10);
names_harness!(c12_bucket_name_len6, 6, 10);
names_harness!(c12_bucket_name_len7, 7, 10);
names_harness!(c12_bucket_name_len8, 8, 11);
names_harness!(c12_bucket_name_len64, 64, 66);
names_harness!(c12_bucket_name_len65, 65, 67);

/// The IP rule: every name of exactly N bytes over {'0', '1', '2', '5', '9', '.'} (contains the whole
/// d.d.d.d family for N = 7, and dd.d.d.d ... d.d.d.dd with and without leading zeros for N = 8).
fn ip_like<const N: usize>() {
    let n: [u8; N] = kani::any();
    let mut i = 0;
    while i < N {
        let c = n[i];
        kani::assume(c == b'0' || c == b'1' || c == b'2' || c == b'5' || c == b'9' || c == b'.');
        i += 1;
    }
    let got = check_against_rules(&n);
    kani::cover!(ip_formatted_strict(&n) && !got);
    kani::cover!(got);
}

macro_rules! ip_harness {
    ($name:ident, $n:expr, $unwind:expr) => {
        #[kani::proof]
        #[kani::unwind($unwind)]
        #[kani::stub(core::slice::memchr::memchr, crate::stubs::naive_memchr)]
        #[kani::stub(<core::net::IpAddr as core::str::FromStr>::from_str, ipaddr_from_str_v4_only)]
        fn $name() {
            ip_like::<$n>();
        }
    };
}
ip_harness!(c12_bucket_name_ip7, 7, 10);
ip_harness!(c12_bucket_name_ip8, 8, 10);

/// Octet range: "ddd.d.d.d" and "d.d.d.ddd" with every digit symbolic over 0..=9: refused whenever it is an
/// IPv4 address (octets <= 255, no leading zero).
fn ip_octet<const FIRST: bool>() {
    let d: [u8; 6] = kani::any();
    let mut i = 0;
    while i < 6 {
        kani::assume(is_digit(d[i]));
        i += 1;
    }
    let n: [u8; 9] = if FIRST {
        [d[0], d[1], d[2], b'.', d[3], b'.', d[4], b'.', d[5]]
    } else {
        [d[3], b'.', d[4], b'.', d[5], b'.', d[0], d[1], d[2]]
    };
    let got = check_against_rules(&n);
    kani::cover!(ip_formatted_strict(&n) && !got);
    kani::cover!(got); // e.g. 256.1.1.1 / 001.1.1.1: not an address for std, accepted (allowed: between the rules)
}

#[kani::proof]
#[kani::unwind(11)]
#[kani::stub(core::slice::memchr::memchr, crate::stubs::naive_memchr)]
#[kani::stub(<core::net::IpAddr as core::str::FromStr>::from_str, ipaddr_from_str_v4_only)]
fn c12_bucket_name_ip_octet_first() {
    ip_octet::<true>();
}

#[kani::proof]
#[kani::unwind(11)]
#[kani::stub(core::slice::memchr::memchr, crate::stubs::naive_memchr)]
#[kani::stub(<core::net::IpAddr as core::str::FromStr>::from_str, ipaddr_from_str_v4_only)]
fn c12_bucket_name_ip_octet_last() {
    ip_octet::<false>();
}

// Upper length bound from the accepting side (a 63-byte name is accepted): NOT decided here.  From 17 bytes on
// `str::contains("..")` takes the SIMD path; CBMC finishes in ~10 s even for a concrete "aaa...a", but the Kani
// driver then dies ("memory allocation failed") under the 8 GB cap while reading the trace.  The refusing side
// of the bound is `c12_bucket_name_len64` / `_len65`.

// ---------------------------------------------------------------------------------------------
// Lemma behind the `ipaddr_from_str_v4_only` stub, on std's REAL parser (no stub of the parser here):
// a text of N bytes over {a, f, 1, '.', '-'} (what the character rule lets through: letters incl. hex
// digits, digits, '.', '-'; no ':') parses as an `IpAddr` exactly when it parses as an `Ipv4Addr`.
//
// NOT in specs/C12.json: does not finish.  Measured at N = 3, unwind 10, 8 GB cap: symex + conversion 306 s,
// then "Solver ran out of memory during propositional reduction" (the unstubbed check_bucket_name harness at
// N = 3 dies the same way after 323 s).  The lemma is evident from std's source instead: without ':' in the
// input `read_ipv6_addr` reads at most one group (or one embedded IPv4 = two groups), which is not 8, and the
// only other accepted form needs "::".
// ---------------------------------------------------------------------------------------------
fn ipv6_needs_colon<const N: usize>() {
    let n: [u8; N] = kani::any();
    let mut i = 0;
    while i < N {
        let c = n[i];
        kani::assume(c == b'a' || c == b'f' || c == b'1' || c == b'.' || c == b'-');
        i += 1;
    }
    let s = as_str(&n);
    let real = s.parse::<IpAddr>();
    let v4 = s.parse::<Ipv4Addr>();
    match (&real, &v4) {
        (Ok(IpAddr::V4(a)), Ok(b)) => assert!(a.octets() == b.octets()),
        (Err(_), Err(_)) => {}
        _ => panic!("IpAddr::from_str differs from Ipv4Addr::from_str on a text without ':'"),
    }
    kani::cover!(true);
}

#[kani::proof]
#[kani::unwind(10)]
#[kani::stub(core::slice::memchr::memchr, crate::stubs::naive_memchr)]
fn c12_lemma_ipv6_needs_colon_3() {
    ipv6_needs_colon::<3>();
}
