//! C14: Timestamp::format / Timestamp::parse (RFC 3339 date-time, HTTP-date, epoch seconds).
//! All instants lie in March 2024 (fixed year and month; 2024-03-01 is a Friday); day 1..=28.
//!
//! STATUS (measured 2026-09-26, 8-12 GB cap; see /verif/kani/specs/C14.json for what is claimed):
//! * `time`'s formatter/parser driven by the const format descriptions of s3s is not constant-propagated by CBMC:
//!   every component / padding / subsecond variant is explored at every item.  Formatting: all fields symbolic ->
//!   out of memory (8 GB) after 120 s; only the hour symbolic -> no verdict after 600 s at 5.3 GB; even the fully
//!   concrete harnesses (c14_time_finding_offset_*, c14_time_format_concrete_utc) did not finish in 420 s.
//! * Parsing RFC 3339: every symbolic digit forks `exactly_n_digits`, CBMC merges the forks into slices of symbolic
//!   length: 8 symbolic digits -> out of memory at 8 GB after 440 s, 2 symbolic digits -> out of memory as well.
//! * The harnesses are kept as the statement of what should be checked; those that do not finish are NOT listed in
//!   the spec file.  HttpDate parsing (format-description parser) and EpochSeconds formatting (f64) were not tried.
use crate::stubs::as_str;
use s3s::dto::{Timestamp, TimestampFormat};

fn d2(buf: &[u8], at: usize, v: u32) -> bool {
    buf[at] == b'0' + (v / 10) as u8 && buf[at + 1] == b'0' + (v % 10) as u8
}

fn lit(buf: &[u8], at: usize, text: &[u8]) -> bool {
    let mut i = 0;
    while i < text.len() {
        if buf[at + i] != text[i] {
            return false;
        }
        i += 1;
    }
    true
}

/// An instant of March 2024 given by its LOCAL fields and the UTC offset they are expressed in.
fn instant(day: u8, h: u8, mi: u8, s: u8, ms: u16, off_h: i8, off_m: i8) -> Timestamp {
    let date = match time::Date::from_calendar_date(2024, time::Month::March, day) {
        Ok(x) => x,
        Err(_) => panic!("harness: bad date"),
    };
    let t = match time::Time::from_hms_milli(h, mi, s, ms) {
        Ok(x) => x,
        Err(_) => panic!("harness: bad time"),
    };
    let off = match time::UtcOffset::from_hms(off_h, off_m, 0) {
        Ok(x) => x,
        Err(_) => panic!("harness: bad offset"),
    };
    Timestamp::from(time::PrimitiveDateTime::new(date, t).assume_offset(off))
}

/// "2024-03-DDTHH:MM:SS.mmmZ" with the given (UTC) fields, 24 bytes.
fn is_rfc3339_utc(buf: &[u8], n: usize, day: u32, h: u32, mi: u32, s: u32, ms: u32) -> bool {
    n == 24
        && lit(buf, 0, b"2024-03-")
        && d2(buf, 8, day)
        && buf[10] == b'T'
        && d2(buf, 11, h)
        && buf[13] == b':'
        && d2(buf, 14, mi)
        && buf[16] == b':'
        && d2(buf, 17, s)
        && buf[19] == b'.'
        && buf[20] == b'0' + (ms / 100) as u8
        && d2(buf, 21, ms % 100)
        && buf[23] == b'Z'
}

const WD: [&[u8; 3]; 7] = [b"Mon", b"Tue", b"Wed", b"Thu", b"Fri", b"Sat", b"Sun"];

/// "Www, DD Mar 2024 HH:MM:SS GMT" with the given (UTC) fields, 29 bytes (IMF-fixdate of RFC 9110).
fn is_httpdate(buf: &[u8], n: usize, day: u32, h: u32, mi: u32, s: u32) -> bool {
    // 2024-03-01 is a Friday (index 4 from Monday)
    let wd = WD[((day - 1 + 4) % 7) as usize];
    n == 29
        && lit(buf, 0, wd)
        && lit(buf, 3, b", ")
        && d2(buf, 5, day)
        && lit(buf, 7, b" Mar 2024 ")
        && d2(buf, 17, h)
        && buf[19] == b':'
        && d2(buf, 20, mi)
        && buf[22] == b':'
        && d2(buf, 23, s)
        && lit(buf, 25, b" GMT")
}

/// Output sink on the stack: a fixed buffer and a write position.  `write_all` never fails and never loops
/// (the formatter only emits pieces of <= 4 bytes: literals, 3-letter names, numbers of <= 4 digits; a longer
/// piece trips the assertion).  This replaces `Vec<u8>`/`&mut [u8]` sinks, whose pointer arithmetic on
/// symbolic lengths is what made the earlier probes run out of memory.
struct Sink {
    buf: [u8; 40],
    pos: usize,
}

impl Sink {
    fn put(&mut self, data: &[u8]) {
        let n = data.len();
        assert!(n <= 4, "harness sink: piece longer than 4 bytes");
        if n >= 1 {
            self.buf[self.pos] = data[0];
        }
        if n >= 2 {
            self.buf[self.pos + 1] = data[1];
        }
        if n >= 3 {
            self.buf[self.pos + 2] = data[2];
        }
        if n >= 4 {
            self.buf[self.pos + 3] = data[3];
        }
        self.pos += n;
    }
}

impl std::io::Write for Sink {
    fn write(&mut self, data: &[u8]) -> std::io::Result<usize> {
        self.put(data);
        Ok(data.len())
    }
    fn write_all(&mut self, data: &[u8]) -> std::io::Result<()> {
        self.put(data);
        Ok(())
    }
    fn flush(&mut self) -> std::io::Result<()> {
        Ok(())
    }
}

fn fmt(ts: &Timestamp, f: TimestampFormat, buf: &mut [u8; 40]) -> usize {
    let mut w = Sink { buf: [0; 40], pos: 0 };
    let r = ts.format(f, &mut w);
    let ok = r.is_ok();
    core::mem::forget(r);
    assert!(ok, "formatting failed");
    *buf = w.buf;
    w.pos
}

// ---------------------------------------------------------------------------------------------------------
// T2: parsing.  The text has a concrete layout; the digit positions are symbolic decimal digits.
// ---------------------------------------------------------------------------------------------------------

/// days from 1970-01-01 to 2024-03-01 (54 years, 13 leap days 1972..=2020, + 31 + 29)
const DAYS_TO_2024_03_01: i64 = 54 * 365 + 13 + 31 + 29;

fn any_digit() -> u8 {
    let d: u8 = kani::any();
    kani::assume(d >= b'0' && d <= b'9');
    d
}

fn val2(b: &[u8], at: usize) -> i64 {
    ((b[at] - b'0') as i64) * 10 + (b[at + 1] - b'0') as i64
}

/// Fills "2024-03-DDTHH:MM:SS" (19 bytes) with symbolic digits.
fn any_prefix(buf: &mut [u8]) {
    let t = b"2024-03-00T00:00:00";
    let mut i = 0;
    while i < 19 {
        buf[i] = t[i];
        i += 1;
    }
    buf[8] = any_digit();
    buf[9] = any_digit();
    buf[11] = any_digit();
    buf[12] = any_digit();
    buf[14] = any_digit();
    buf[15] = any_digit();
    buf[17] = any_digit();
    buf[18] = any_digit();
}

/// The instant (seconds since the epoch) denoted by the fields at the fixed positions, for a UTC offset of
/// `off_s` seconds; None if a field is outside its RFC 3339 range (March has 31 days).
/// Second 60 (leap second) is excluded by the callers' assumptions.
fn denoted(buf: &[u8], off_s: i64) -> Option<i64> {
    let (d, h, mi, s) = (val2(buf, 8), val2(buf, 11), val2(buf, 14), val2(buf, 17));
    if d < 1 || d > 31 || h > 23 || mi > 59 || s > 59 {
        return None;
    }
    Some((DAYS_TO_2024_03_01 + d - 1) * 86400 + h * 3600 + mi * 60 + s - off_s)
}

fn check_parse(text: &[u8], want: Option<i64>, want_ns: u32) {
    let got = Timestamp::parse(TimestampFormat::DateTime, as_str(text));
    match (&got, want) {
        (Ok(ts), Some(secs)) => {
            let odt = time::OffsetDateTime::from(ts.clone());
            assert!(odt.unix_timestamp() == secs, "parsed instant differs from the denoted instant");
            assert!(odt.nanosecond() == want_ns);
        }
        (Err(_), None) => {}
        (Ok(_), None) => panic!("a date-time with an out-of-range field is accepted"),
        (Err(_), Some(_)) => panic!("a valid RFC 3339 date-time is refused"),
    }
    core::mem::forget(got);
    kani::cover!(true);
}

/// "2024-03-DDTHH:MM:SSZ", all 8 digits symbolic, seconds != 60.
#[kani::proof]
#[kani::unwind(21)]
fn c14_time_parse_rfc3339_z() {
    let mut buf = [0u8; 20];
    any_prefix(&mut buf);
    buf[19] = b'Z';
    kani::assume(val2(&buf, 17) != 60);
    let want = denoted(&buf, 0);
    check_parse(&buf, want, 0);
}

/// "2024-03-DDTHH:MM:SS.fffZ", 11 symbolic digits, seconds != 60.
#[kani::proof]
#[kani::unwind(25)]
fn c14_time_parse_rfc3339_millis_z() {
    let mut buf = [0u8; 24];
    any_prefix(&mut buf);
    buf[19] = b'.';
    buf[20] = any_digit();
    buf[21] = any_digit();
    buf[22] = any_digit();
    buf[23] = b'Z';
    kani::assume(val2(&buf, 17) != 60);
    let ms = (buf[20] - b'0') as u32 * 100 + (buf[21] - b'0') as u32 * 10 + (buf[22] - b'0') as u32;
    let want = denoted(&buf, 0);
    check_parse(&buf, want, ms * 1_000_000);
}

/// "2024-03-DDTHH:MM:SS+hh:mm" / "-hh:mm": 12 symbolic digits and a symbolic sign, seconds != 60.
/// The instant is the local fields minus the offset ("keeps its instant whatever UTC offset").
#[kani::proof]
#[kani::unwind(26)]
fn c14_time_parse_rfc3339_offset() {
    let mut buf = [0u8; 25];
    any_prefix(&mut buf);
    let neg: bool = kani::any();
    buf[19] = if neg { b'-' } else { b'+' };
    buf[20] = any_digit();
    buf[21] = any_digit();
    buf[22] = b':';
    buf[23] = any_digit();
    buf[24] = any_digit();
    kani::assume(val2(&buf, 17) != 60);
    let (oh, om) = (val2(&buf, 20), val2(&buf, 23));
    let want = if oh > 23 || om > 59 {
        None
    } else {
        let off = oh * 3600 + om * 60;
        denoted(&buf, if neg { -off } else { off })
    };
    check_parse(&buf, want, 0);
}

/// Reduced form of c14_time_parse_rfc3339_z (which runs out of memory at 8 GB with 8 symbolic digits):
/// "2024-03-17THH:46:39Z", only the two hour digits symbolic.
#[kani::proof]
#[kani::unwind(21)]
fn c14_time_parse_rfc3339_z_hour() {
    let mut buf = [0u8; 20];
    let t = b"2024-03-17T00:46:39Z";
    let mut i = 0;
    while i < 20 {
        buf[i] = t[i];
        i += 1;
    }
    buf[11] = any_digit();
    buf[12] = any_digit();
    let want = denoted(&buf, 0);
    check_parse(&buf, want, 0);
}

/// Reduced form of c14_time_parse_rfc3339_offset: "2024-03-17T12:46:39+hh:30" / "-hh:30", sign and the two
/// offset-hour digits symbolic.
#[kani::proof]
#[kani::unwind(26)]
fn c14_time_parse_rfc3339_offset_hour() {
    let mut buf = [0u8; 25];
    let t = b"2024-03-17T12:46:39+00:30";
    let mut i = 0;
    while i < 25 {
        buf[i] = t[i];
        i += 1;
    }
    let neg: bool = kani::any();
    buf[19] = if neg { b'-' } else { b'+' };
    buf[20] = any_digit();
    buf[21] = any_digit();
    let oh = val2(&buf, 20);
    let want = if oh > 23 {
        None
    } else {
        let off = oh * 3600 + 30 * 60;
        denoted(&buf, if neg { -off } else { off })
    };
    check_parse(&buf, want, 0);
}

/// Concrete texts (the symbolic versions above run out of memory at 8 GB, even with 2 symbolic digits):
/// the same instant written with offsets Z, +01:00 and -05:30 parses to the same epoch second; milliseconds kept.
#[kani::proof]
#[kani::unwind(30)]
fn c14_time_parse_rfc3339_concrete() {
    // 2024-03-10T11:00:00Z = (19783 + 9) * 86400 + 11 * 3600
    let want = (DAYS_TO_2024_03_01 + 9) * 86400 + 11 * 3600;
    check_parse(b"2024-03-10T11:00:00Z", Some(want), 0);
    check_parse(b"2024-03-10T12:00:00+01:00", Some(want), 0);
    check_parse(b"2024-03-10T05:30:00.250-05:30", Some(want), 250_000_000);
    check_parse(b"2024-03-10T24:00:00Z", None, 0);
}

/// Epoch seconds "DDDDDDDDDD" (10 symbolic digits: 1970 .. 2286): the instant is that many seconds.
#[kani::proof]
#[kani::unwind(24)]
#[kani::stub(core::slice::memchr::memchr, crate::stubs::naive_memchr)]
fn c14_time_parse_epoch_int() {
    let mut buf = [0u8; 10];
    let mut v: i64 = 0;
    let mut i = 0;
    while i < 10 {
        buf[i] = any_digit();
        v = v * 10 + (buf[i] - b'0') as i64;
        i += 1;
    }
    let got = Timestamp::parse(TimestampFormat::EpochSeconds, as_str(&buf));
    match &got {
        Ok(ts) => {
            let odt = time::OffsetDateTime::from(ts.clone());
            assert!(odt.unix_timestamp() == v && odt.nanosecond() == 0);
        }
        Err(_) => panic!("valid epoch seconds refused"),
    }
    core::mem::forget(got);
    kani::cover!(true);
}

/// Epoch seconds with a fraction "17DDDDDDDD.fff": the instant is the integer part plus fff milliseconds.
#[kani::proof]
#[kani::unwind(24)]
#[kani::stub(core::slice::memchr::memchr, crate::stubs::naive_memchr)]
fn c14_time_parse_epoch_frac3() {
    let mut buf = [0u8; 14];
    buf[0] = b'1';
    buf[1] = b'7';
    let mut v: i64 = 17;
    let mut i = 2;
    while i < 10 {
        buf[i] = any_digit();
        v = v * 10 + (buf[i] - b'0') as i64;
        i += 1;
    }
    buf[10] = b'.';
    let mut f: u32 = 0;
    let mut i = 11;
    while i < 14 {
        buf[i] = any_digit();
        f = f * 10 + (buf[i] - b'0') as u32;
        i += 1;
    }
    let got = Timestamp::parse(TimestampFormat::EpochSeconds, as_str(&buf));
    match &got {
        Ok(ts) => {
            let odt = time::OffsetDateTime::from(ts.clone());
            assert!(odt.unix_timestamp() == v && odt.nanosecond() == f * 1_000_000);
        }
        Err(_) => panic!("valid epoch seconds refused"),
    }
    core::mem::forget(got);
    kani::cover!(true);
}

// ---------------------------------------------------------------------------------------------------------
// T1: formatting
// ---------------------------------------------------------------------------------------------------------

/// FINDING (C14, "a timestamp keeps its instant whatever UTC offset it was expressed in"):
/// the instant 2024-03-10T12:00:00+01:00 IS 2024-03-10T11:00:00Z; `format(DateTime)` must print
/// "2024-03-10T11:00:00.000Z".  The implementation prints the local fields followed by a literal 'Z'
/// ("2024-03-10T12:00:00.000Z", another instant).  Everything is concrete.  Expected to FAIL.
#[kani::proof]
#[kani::unwind(17)]
fn c14_time_finding_offset_datetime() {
    let ts = instant(10, 12, 0, 0, 0, 1, 0);
    let mut buf = [0u8; 40];
    let n = fmt(&ts, TimestampFormat::DateTime, &mut buf);
    kani::cover!(true);
    assert!(is_rfc3339_utc(&buf, n, 10, 11, 0, 0, 0), "a non-UTC timestamp is printed with its local fields and 'Z'");
}

/// Same for HTTP-date: must print "Sun, 10 Mar 2024 11:00:00 GMT"; prints "... 12:00:00 GMT".  Expected to FAIL.
#[kani::proof]
#[kani::unwind(17)]
fn c14_time_finding_offset_httpdate() {
    let ts = instant(10, 12, 0, 0, 0, 1, 0);
    let mut buf = [0u8; 40];
    let n = fmt(&ts, TimestampFormat::HttpDate, &mut buf);
    kani::cover!(true);
    assert!(is_httpdate(&buf, n, 10, 11, 0, 0), "a non-UTC timestamp is printed with its local fields and 'GMT'");
}

/// Concrete UTC instant, both formats (the symbolic versions do not finish, see specs/C14.json).
#[kani::proof]
#[kani::unwind(17)]
fn c14_time_format_concrete_utc() {
    let ts = instant(9, 7, 5, 3, 42, 0, 0);
    let mut buf = [0u8; 40];
    let n = fmt(&ts, TimestampFormat::DateTime, &mut buf);
    assert!(is_rfc3339_utc(&buf, n, 9, 7, 5, 3, 42));
    let n = fmt(&ts, TimestampFormat::HttpDate, &mut buf);
    assert!(is_httpdate(&buf, n, 9, 7, 5, 3));
    kani::cover!(true);
}

#[kani::proof]
#[kani::unwind(17)]
fn c14_time_probe_format_datetime_utc() {
    let day: u8 = kani::any();
    let h: u8 = kani::any();
    let mi: u8 = kani::any();
    let s: u8 = kani::any();
    let ms: u16 = kani::any();
    kani::assume(day >= 1 && day <= 28 && h < 24 && mi < 60 && s < 60 && ms < 1000);
    let ts = instant(day, h, mi, s, ms, 0, 0);
    let mut buf = [0u8; 40];
    let n = fmt(&ts, TimestampFormat::DateTime, &mut buf);
    assert!(is_rfc3339_utc(&buf, n, day as u32, h as u32, mi as u32, s as u32, ms as u32));
    kani::cover!(true);
}

/// same, only the hour symbolic
#[kani::proof]
#[kani::unwind(17)]
fn c14_time_probe_format_datetime_hour() {
    let h: u8 = kani::any();
    kani::assume(h < 24);
    let ts = instant(17, h, 46, 39, 120, 0, 0);
    let mut buf = [0u8; 40];
    let n = fmt(&ts, TimestampFormat::DateTime, &mut buf);
    assert!(is_rfc3339_utc(&buf, n, 17, h as u32, 46, 39, 120));
    kani::cover!(true);
}
