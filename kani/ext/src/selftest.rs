//! Self-test of the runner: a harness that must FAIL and must be confirmed by native playback,
//! and one that must pass.  Not part of any property.
#[kani::proof]
fn selftest_fails() {
    let x: u8 = kani::any();
    let y: u16 = kani::any();
    assert!(!(x == 5 && y == 700), "selftest: deliberately false");
    kani::cover!(true);
}
