//! Kani harnesses over the *public* API of Nugine/s3s (external crate, no hooks).
//! Style rules (measured, see DESIGN.md section 2): symbolic inputs are stack arrays
//! viewed as &str/&[u8]; heap results are mem::forget-ed; compare position-wise.
#![allow(clippy::all, dead_code, unused_imports)]

#[cfg(kani)]
pub mod stubs;
#[cfg(kani)]
mod c14_range;
#[cfg(kani)]
mod c20_pattern;
#[cfg(kani)]
mod c12_path;
#[cfg(kani)]
mod c12_bucket;
#[cfg(kani)]
mod c12_host;
#[cfg(kani)]
mod selftest;
#[cfg(kani)]
mod c14_copy_source;
#[cfg(kani)]
mod c14_time;
