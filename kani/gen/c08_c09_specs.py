import json
P="http::aws_chunked_stream::verif_kani_c08::"
M="http::multipart::verif_kani_c09::"
FS=["-Z","unstable-options","--cbmc-args","--max-field-sensitivity-array-size","512"]
ST_H4=["memchr::memchr (crate memchr 2.7.4, via `use ::memchr::memchr as memchr_fn`) -> naive_memchr (byte loop)",
       "core::arch::x86_64::__cpuid_count -> zeros"]
ST_STREAM=["memchr::memchr -> memchr_in_skeleton (exact LF-position table for slices of the static skeleton; asserts its precondition)",
           "core::arch::x86_64::__cpuid_count -> zeros",
           "check_signature -> model_check_signature (chain model = table of the genuine SigV4 links of the skeletons, signatures identified by bytes 0,1,63)",
           "parse_chunk_meta -> model_parse_chunk_meta (straight-line recogniser 1HEXDIG \";chunk-signature=\" 64OCTET CRLF; the real parser is covered by c08_h4_*)"]
ST_U1=[ST_STREAM[0],ST_STREAM[1]]
def e(h,tier,timeout,mem,what,bound,stubs,ms,gb,expect,**kw):
    d={"harness":h,"where":"s3s","tier":tier,"timeout":timeout,"mem_gb":mem,"what":what,"bound":bound,"stubs":stubs,
       "measured_s":ms,"measured_gb":gb,"expect":expect}
    d.update(kw)
    if "does not fit" in str(d.get("kani_status","")):
        d["tier"]="none"; d["run"]=False   # listed for the record (harness exists, native replay only); do not schedule
    return d
R=json.load(open("/verif/kani/gen/c08_c09_results.json"))
def ms(h): return R.get(h,{}).get("s")
def gb(h): return R.get(h,{}).get("gb")
c08=[]
H4B="header = K symbolic size-field bytes (any value) + tag (one byte symbolic at the given offset) + 64-byte signature with bytes 0,31,63 symbolic + 2 symbolic bytes for CRLF + J symbolic junk bytes; unwind 24; REQUIRES extra CBMC option --max-field-sensitivity-array-size >= 96 (the 96-byte stack buffer is otherwise not constant-folded and the scans hit the unwind bound: inconclusive)"
for h,k,what in [("c08_h4_meta_k0","K=0,J=0","empty size field is refused"),
                 ("c08_h4_meta_k1","K=1,J=0","1-byte size field: accepted iff HEXDIG and tag/CRLF exact; size as read; signature = the 64 bytes"),
                 ("c08_h4_meta_k2","K=2,J=0","2-byte size field: accepted iff both HEXDIG (finding role excluded) and tag/CRLF exact; size as read"),
                 ("c08_h4_meta_k1_junk1","K=1,J=1","a byte after the CRLF is refused"),
                 ("c08_h4_meta_k1_tag8","K=1,J=0, tag byte 8 symbolic","any change of a tag byte is refused")]:
    c08.append(e(P+h,"thorough",900,8,"parse_chunk_meta == grammar 1*HEXDIG \";chunk-signature=\" 64OCTET CRLF: "+what,k+"; "+H4B,ST_H4,ms(h),gb(h),"success",extra=FS))
c08.append(e(P+"c08_h4_meta_finding_chunk_size_trailing_junk","thorough",900,8,
   "FINDING: a size field 1*HEXDIG followed by junk without ';' (e.g. \"9+;chunk-signature=..\") is accepted with the value of the leading digits",
   "K=2,J=0; "+H4B,ST_H4,ms("c08_h4_meta_finding_chunk_size_trailing_junk"),gb("c08_h4_meta_finding_chunk_size_trailing_junk"),"finding:chunk_size_trailing_junk",extra=FS,
   playback={"confirmed":True,"profiles":{"dev":"fails","release":"fails"},"input":"size field bytes [57,43] = 9+ : the header 9+;chunk-signature=<64 bytes>CRLF is accepted with size 9"}))
UB="V_OK skeleton (174 bytes, genuine signatures), future polled on the stack (no Box), unwind 6"
c08.append(e(P+"c08_u1_read_meta_bytes_end_of_input","quick",600,8,
   "read_meta_bytes answers None when the transport ends after t<=83 bytes (before the LF of the first chunk header), exactly as for a clean end; the partial header stays in buf (the generator maps None to a successful end => finding truncated_upload_accepted)",
   UB+"; 2 frames, symbolic c1<=t<=83",ST_U1,ms("c08_u1_read_meta_bytes_end_of_input"),gb("c08_u1_read_meta_bytes_end_of_input"),"success"))
U1W="read_meta_bytes returns the header line (length 84, sampled at 6 positions) in buf and the rest of the frame holding the LF, independent of the framing"
c08.append(e(P+"c08_u1_read_meta_bytes_framing_2frames","thorough",900,12,U1W,UB+"; ONE symbolic cut at every position 0..=174 (2 frames + empty frame), transport always ready; needs 12 GB (OOM at 8 GB)",ST_U1,ms("c08_u1_read_meta_bytes_framing_2frames"),gb("c08_u1_read_meta_bytes_framing_2frames"),"success"))
for h,b in [("c08_u1_read_meta_bytes_framing_cut_83_84","3 frames, CONCRETE cuts [..83][83..84][84..] (between CR and LF, behind LF)"),("c08_u1_read_meta_bytes_framing_cut_1_83","3 frames, CONCRETE cuts [..1][1..83][83..]")]:
    c08.append(e(P+h,"thorough",900,8,U1W,UB+"; "+b+"; (4 and 10 cut pairs in one harness: SAT back end out of memory at 8 GB)",ST_U1,ms(h),gb(h),R.get(h,{}).get("expect","success")))
c08.append(e(P+"c08_u2_read_data_framing_cutset","thorough",900,8,"read_data(2) on \"ab\" CRLF \"0;chu\": pieces concatenate to the 2 data bytes, CRLF consumed, rest of the frame holding the LF handed back, independent of the framing",
   "future on the stack, unwind 6; all 28 CONCRETE cut pairs c1<=c2 over {0,1,2,3,4,5,9} (leftover + 2 frames), transport always ready",[],ms("c08_u2_read_data_framing_cutset"),gb("c08_u2_read_data_framing_cutset"),"success"))
c08.append(e(P+"c08_u2_read_data_bad_terminator_cutset","thorough",900,8,"chunk data not followed by CRLF (abX\\n.. / ab\\rX..: size altered, bytes inserted/removed) is a FormatError independent of the framing",
   "future on the stack, unwind 6; 4 CONCRETE cut pairs x 2 bodies (8 pairs x 2: out of memory at 8 GB)",[],ms("c08_u2_read_data_bad_terminator_cutset"),gb("c08_u2_read_data_bad_terminator_cutset"),"success"))
c08.append(e(P+"c08_u2_read_data_end_and_final_cutset","thorough",900,8,"read_data(2) answers None (generator: Incomplete error) when the transport ends inside data/CRLF (t=0..3); read_data(0) on CRLF (final chunk) is Ok without data; independent of the framing",
   "future on the stack, unwind 6; 8 + 6 CONCRETE framings",[],ms("c08_u2_read_data_end_and_final_cutset"),gb("c08_u2_read_data_end_and_final_cutset"),"success"))
c08.append(e(P+"c08_stub_memchr_table_is_exact","quick",600,8,"the memchr stub (LF position table) equals the byte loop on every slice V_OK.body[a..b]","symbolic a<=b<=174, unwind 180",[],ms("c08_stub_memchr_table_is_exact"),gb("c08_stub_memchr_table_is_exact"),"success"))
SYM="symbolic cut positions; DOES NOT FIT: "
for h,m in [("c08_u1_read_meta_bytes_framing","3 frames + Pending schedule: killed after 780 s in symex at 6.3 GB"),
            ("c08_u1_read_meta_bytes_framing_3frames","two symbolic cuts: symex 7 s, then SAT 6.27 M variables / 26 M clauses, solver out of memory at 8 GB after 109 s"),
            ("c08_u1_read_meta_bytes_framing_2frames_pending","not run (superset of the previous ones)"),
            ("c08_u2_read_data_final_chunk","killed after 270 s in symex at 5.6 GB (Vec<Bytes> on the heap: Bytes vtable calls expand into all clone/drop implementations)"),
            ("c08_u2_read_data_end_of_input","killed after 420 s in symex at 3.3 GB"),
            ("c08_u2_read_data_framing","not run (superset)"),("c08_u2_read_data_bad_terminator","not run (superset)")]:
    c08.append(e(P+h,"thorough",1500,12,"unit level, "+SYM+m,"see the *_cutset / *_2frames harnesses for what does fit",ST_U1 if "u1" in h else [],None,None,"success",kani_status="inconclusive (does not fit)"))
NF="DOES NOT FIT in CBMC (boxed generator state is not constant-folded by symex; Bytes' hand-written vtable expands every Bytes op into all clone/drop implementations): see measurements; replayed NATIVELY (real HMAC, real parser, no stubs) on samples by gen/c08_native_replay.py"
c08.append(e(P+"c08_h3_finding_truncated_upload_accepted","thorough",1500,8,
   "FINDING: the transport ends before/inside a chunk header (t<84 or 88<=t<172 of V_OK, incl. empty body and chunk boundary): the body ends Ok without the signed zero-length chunk",
   "V_OK[..t] in 2 frames, symbolic t,c1, declared in 0..=3; unwind 6; "+NF,ST_STREAM,None,None,"finding:truncated_upload_accepted",
   kani_status="inconclusive (does not fit)",native_replay={"inputs":"(t,c1,declared) = (0,0,1) (40,10,2) (88,30,2) (130,86,2)","verdict":"all four FAIL natively: 'a truncated upload (no signed zero-length chunk received) ends Ok'"}))
c08.append(e(P+"c08_h3_finding_declared_length_not_enforced","thorough",1500,8,
   "FINDING: the complete, correctly signed 2-byte upload ends Ok although 0, 1 or 3 decoded bytes were declared (and the backend is told the declared length)",
   "V_OK whole in 2 frames, symbolic c1, declared in {0,1,3}; unwind 6; "+NF,ST_STREAM,None,None,"finding:declared_length_not_enforced",
   kani_status="inconclusive (does not fit)",native_replay={"inputs":"(c1,declared) = (50,3) (174,0)","verdict":"both FAIL natively: 'the upload ends Ok although its total differs from the declared decoded length'"}))
c08.append(e(P+"c08_h3_truncation","thorough",1500,8,
   "H3 main: Ok only for the complete upload with the declared total; chunk data whole-or-nothing and not before it arrived (roles of the two findings excluded)",
   "V_OK[..t] in 2 frames, symbolic t,c1, declared 0..=3; unwind 6; "+NF,ST_STREAM,None,None,"success",
   kani_status="inconclusive (does not fit)",native_replay={"inputs":"(174,85,2) (85,3,2) (87,84,1) (173,100,2)","verdict":"pass natively"}))
for h,sk in [("c08_h1_valid","valid"),("c08_h1_data0","first data byte altered"),("c08_h1_data1","second data byte altered"),("c08_h1_sig","signature altered"),
             ("c08_h1_shrink","chunk shrunk, size adjusted"),("c08_h1_grow","chunk grown, size adjusted"),("c08_h1_sizelie","size field altered"),
             ("c08_h1_resign","re-signed with another key"),("c08_h1_splice","chain of another request (other seed)"),
             ("c08_h2_valid","two data chunks valid"),("c08_h2_swap","chunks swapped"),("c08_h2_dup","first chunk duplicated"),("c08_h2_drop","first chunk dropped"),
             ("c08_h2_skip","middle chunk dropped"),("c08_h2_foreign","second chunk spliced in from another request")]:
    c08.append(e(P+h,"thorough",1500,8,"stream outcome (Ok/Err, delivered bytes) == reference decoder outcome for every partition into 3 frames: "+sk,
                 "static skeleton, symbolic cuts c1<=c2; unwind 6; "+NF,ST_STREAM,None,None,"success",kani_status="inconclusive (does not fit)",
                 native_replay={"inputs":"cuts (0,0) (10,85) (83,87)","verdict":"pass natively (real HMAC agrees with the chain model on every skeleton)"}))
json.dump(c08,open("/verif/kani/specs/C08.json","w"),indent=1)
c09=[]
c09.append(e(P+"c09_p1_valid_pending","thorough",1500,8,"C09-P1 stream level: V_OK, every partition into 3 frames and every Pending schedule gives the reference outcome",
             "unwind 6, 10 polls; "+NF,ST_STREAM,None,None,"success",kani_status="inconclusive (does not fit)",native_replay={"inputs":"cuts (20,100), pend 1,0,1,1","verdict":"passes natively"}))
c09.append(e(P+"c09_p1_dup_pending","thorough",1500,8,"C09-P1 stream level: W_DUP (error at the duplicated chunk) under every partition and Pending schedule",
             "unwind 6, 12 polls; "+NF,ST_STREAM,None,None,"success",kani_status="inconclusive (does not fit)"))
for x in c08:
    if ("c08_u1_read_meta_bytes_framing" in x["harness"] or "c08_u2_read_data" in x["harness"]) and "kani_status" not in x:
        y=dict(x); y["what"]="C09-P1 unit level: "+y["what"]; c09.append(y)
MPNF="DOES NOT FIT: CrlfLines uses memchr::memchr_iter = the memchr crate's private unsafe fn memchr_raw -> SSE2 find_raw explored under Kani's SIMD model; not stubbable in-crate (the replacement must be an unsafe fn, the workspace forbids unsafe code)"
for h,what,b,m in [("c09_p2_next_line_len0_3","CrlfLines::next_line: line = text before the first CRLF, cursor behind it; without CRLF: None on empty, the whole rest as an unterminated line otherwise","all slices of 0..3 bytes over {CR,LF,'-','b','x'}; unwind 18","killed after 540 s in symex at 2.9 GB"),
                 ("c09_p2_next_line_len5","same as c09_p2_next_line_len0_3","all slices of 5 bytes; unwind 18","not run"),
                 ("c09_p2_split_to_len6","CrlfLines::split_to(--b): text before the first line equal to the pattern / None and cursor unchanged","all slices of 6 bytes; unwind 18","not run"),
                 ("c09_p2_first_frame_boundary_line","try_parse on a first frame FORM[..c], c in {4,6} (ends behind --bb / behind the first boundary line): waits for more data","static 150-byte form, boundary bb; unwind 18","not run in CBMC; passes natively for c=4,6"),
                 ("c09_p2_whole_form_parses","the whole form in ONE frame parses (field + file part found)","concrete; unwind 160","not run in CBMC; passes natively")]:
    c09.append(e(M+h,"thorough",1500,8,what,b+"; "+MPNF+"; "+m,["core::arch::x86_64::__cpuid_count -> zeros"],None,None,"success",kani_status="inconclusive (does not fit)",also=["C10"]))
c09.append(e(M+"c09_p2_finding_multipart_first_frame_inside_boundary_line","thorough",1500,8,
   "FINDING: a first frame that ends inside the first boundary line (c in {1,2,3,5}: \"-\", \"--\", \"--b\", \"--bb\\r\") makes try_parse answer InvalidFormat although the whole form parses: outcome depends on framing",
   "static form, boundary bb, symbolic c in 1..=5; unwind 18; "+MPNF,["core::arch::x86_64::__cpuid_count -> zeros"],ms("c09_p2_finding_multipart_first_frame_inside_boundary_line"),gb("c09_p2_finding_multipart_first_frame_inside_boundary_line"),
   "finding:multipart_first_frame_inside_boundary_line",also=["C10"],
   kani_status="inconclusive (does not fit): killed after 433 s in symex at 2.9 GB, still inside the first memchr_iter step",
   native_replay={"inputs":"c = 1,2,3,5 (fail), 4 (pass); whole form in one frame parses (c09_p2_whole_form_parses passes)","verdict":"c=1,2,3,5 FAIL natively: 'a prefix of a well-formed form is refused as InvalidFormat'"}))
json.dump(c09,open("/verif/kani/specs/C09.json","w"),indent=1)
print(len(c08),len(c09))
