#!/usr/bin/env python3
# Native replay of chosen inputs through the multipart harness functions (same mechanism as vlib.kani.concrete_playback).
import os, shutil, subprocess, sys, re
sys.path.insert(0, "/verif/lib")
from vlib import env_offline
INC = sys.argv[1]
SCR = "/tmp/c09_native_pb"
shutil.rmtree(SCR, ignore_errors=True)
shutil.copytree(INC, SCR + "/incrate")
def u(x): return "vec![%s]" % ", ".join(str((x >> (8 * i)) & 255) for i in range(8))
M = "crate::http::multipart::verif_kani_c09::"
tests = []
def t(name, harness, vals, expect): tests.append((name, harness, vals, expect))
for c in (1, 2, 3, 5):
    t("f_first_frame_%d" % c, "c09_p2_finding_multipart_first_frame_inside_boundary_line", [u(c)], "fails")
t("f_first_frame_4", "c09_p2_finding_multipart_first_frame_inside_boundary_line", [u(4)], "passes")
t("m_first_frame_4", "c09_p2_first_frame_boundary_line", [u(4)], "passes")
t("m_first_frame_6", "c09_p2_first_frame_boundary_line", [u(6)], "passes")
t("m_whole_form", "c09_p2_whole_form_parses", [], "passes")
src = ""
for name, h, vals, _ in tests:
    src += "\n#[test]\nfn kani_concrete_playback_%s() {\n    let concrete_vals: Vec<Vec<u8>> = vec![%s];\n    kani::concrete_playback_run(concrete_vals, %s%s);\n}\n" % (name, ", ".join(vals), M, h)
with open(SCR + "/incrate/s3s_http_multipart.rs", "a") as f:
    f.write(src)
env = env_offline({"VERIF_KANI_INC": SCR + "/incrate", "CARGO_TARGET_DIR": "/verif/.build/kani/s3s-pb31-native-dev"})
cmd = ["cargo", "kani", "playback", "-Z", "concrete-playback", "--manifest-path", "/repo/crates/s3s/Cargo.toml", "--lib", "--", "kani_concrete_playback_"]
p = subprocess.run(cmd, cwd="/repo/crates/s3s", env=env, stdout=subprocess.PIPE, stderr=subprocess.STDOUT, text=True, errors="replace")
open("/tmp/c09_native_mp.out", "w").write(p.stdout)
res = dict(re.findall(r"test \S*kani_concrete_playback_(\w+) \.\.\. (\w+)", p.stdout))
bad = 0
for name, h, vals, expect in tests:
    got = {"ok": "passes", "FAILED": "fails"}.get(res.get(name), "missing")
    flag = "" if got == expect else "   <-- UNEXPECTED"
    if flag: bad += 1
    print("%-22s %-62s native: %-8s expected: %s%s" % (name, h, got, expect, flag))
print("unexpected:", bad)
