#!/usr/bin/env python3
# Native replay of chosen inputs through the Kani harness functions (no stubs are active natively: real memchr, real
# parse_chunk_meta, real HMAC-SHA256).  Same mechanism as vlib.kani.concrete_playback.
import os, shutil, subprocess, sys, re
sys.path.insert(0, "/verif/lib")
from vlib import env_offline
INC = sys.argv[1]
SCR = "/tmp/c08_native_pb"
shutil.rmtree(SCR, ignore_errors=True)
shutil.copytree(INC, SCR + "/incrate")
def u(x): return "vec![%s]" % ", ".join(str((x >> (8 * i)) & 255) for i in range(8))
def b(x): return "vec![%d]" % (1 if x else 0)
M = "crate::http::aws_chunked_stream::verif_kani_c08::"
tests = []   # (name, harness, vals, expected native verdict)
def t(name, harness, vals, expect): tests.append((name, harness, vals, expect))
# findings: must FAIL natively
t("f_trunc_empty",      "c08_h3_finding_truncated_upload_accepted", [u(0), u(0), u(1)], "fails")
t("f_trunc_in_header1", "c08_h3_finding_truncated_upload_accepted", [u(40), u(10), u(2)], "fails")
t("f_trunc_boundary",   "c08_h3_finding_truncated_upload_accepted", [u(88), u(30), u(2)], "fails")
t("f_trunc_in_header2", "c08_h3_finding_truncated_upload_accepted", [u(130), u(86), u(2)], "fails")
t("f_declared_3",       "c08_h3_finding_declared_length_not_enforced", [u(50), u(3)], "fails")
t("f_declared_0",       "c08_h3_finding_declared_length_not_enforced", [u(174), u(0)], "fails")
# main harnesses: must PASS natively (also validates the generated signatures against the real HMAC)
t("m_h3_complete",      "c08_h3_truncation", [u(174), u(85), u(2)], "passes")
t("m_h3_in_data",       "c08_h3_truncation", [u(85), u(3), u(2)], "passes")
t("m_h3_in_crlf",       "c08_h3_truncation", [u(87), u(84), u(1)], "passes")
t("m_h3_final_crlf",    "c08_h3_truncation", [u(173), u(100), u(2)], "passes")
for h in ["c08_h1_valid","c08_h1_data0","c08_h1_data1","c08_h1_sig","c08_h1_shrink","c08_h1_grow","c08_h1_sizelie",
          "c08_h1_resign","c08_h1_splice","c08_h2_valid","c08_h2_swap","c08_h2_dup","c08_h2_drop","c08_h2_skip","c08_h2_foreign"]:
    t("m_"+h+"_a", h, [u(0), u(0)], "passes")          # one frame (two empty frames first)
    t("m_"+h+"_b", h, [u(10), u(85)], "passes")        # cut inside header1 and inside the data
    t("m_"+h+"_c", h, [u(83), u(87)], "passes")        # cut between CR and LF
t("m_p1_pending", "c09_p1_valid_pending", [u(20), u(100), b(1), b(0), b(1), b(1)], "passes")
src = ""
for name, h, vals, _ in tests:
    src += "\n#[test]\nfn kani_concrete_playback_%s() {\n    let concrete_vals: Vec<Vec<u8>> = vec![%s];\n    kani::concrete_playback_run(concrete_vals, %s%s);\n}\n" % (name, ", ".join(vals), M, h)
with open(SCR + "/incrate/s3s_http_aws_chunked_stream.rs", "a") as f:
    f.write(src)
env = env_offline({"VERIF_KANI_INC": SCR + "/incrate", "CARGO_TARGET_DIR": "/verif/.build/kani/s3s-pb31-native-dev"})
cmd = ["cargo", "kani", "playback", "-Z", "concrete-playback", "--manifest-path", "/repo/crates/s3s/Cargo.toml", "--lib", "--", "kani_concrete_playback_"]
p = subprocess.run(cmd, cwd="/repo/crates/s3s", env=env, stdout=subprocess.PIPE, stderr=subprocess.STDOUT, text=True, errors="replace")
open("/tmp/c08_native.out", "w").write(p.stdout)
res = dict(re.findall(r"test \S*kani_concrete_playback_(\w+) \.\.\. (\w+)", p.stdout))
bad = 0
for name, h, vals, expect in tests:
    got = {"ok": "passes", "FAILED": "fails"}.get(res.get(name), "missing")
    flag = "" if got == expect else "   <-- UNEXPECTED"
    if flag: bad += 1
    print("%-28s %-48s native: %-8s expected: %s%s" % (name, h, got, expect, flag))
print("unexpected:", bad)
