// in-crate Kani harnesses for http/multipart.rs (included under cfg(kani)): C09-P2 (CrlfLines / try_parse level), C10.
//
// STATUS (measured, Kani 0.68 / CBMC 6.11): NONE of these harnesses finishes in CBMC.  CrlfLines uses
// `memchr::memchr_iter`, i.e. memchr's private `unsafe fn memchr_raw` -> SSE2 `One::find_raw`; the length test
// `end - start < 16` is a difference of pointer-to-integer casts that symex cannot decide, so the vector path is
// explored under Kani's SIMD model: c09_p2_next_line_len0_3 was still in symex after 540 s (2.9 GB), the finding
// harness after 433 s (2.9 GB, inside the FIRST memchr_iter step).  The function cannot be stubbed from inside the
// crate: the replacement would have to be an `unsafe fn` and the workspace forbids unsafe code.
// The harness functions are kept because they are replayed NATIVELY (gen/c09_native_replay_multipart.py): the
// finding fails natively for c = 1, 2, 3, 5, the main harness passes for c = 4, 6, the whole form parses.
#[allow(clippy::all, clippy::pedantic, dead_code, unused_imports, unused_variables)]
mod verif_kani_c09 {
    use super::*;
    use std::task::{Context, Poll};

    /// `core::arch::x86_64::__cpuid_count` -> zeros (memchr / httparse pick their non-AVX code paths).
    pub fn cpuid_zero(_leaf: u32, _sub: u32) -> core::arch::x86_64::CpuidResult {
        core::arch::x86_64::CpuidResult { eax: 0, ebx: 0, ecx: 0, edx: 0 }
    }

    /// alphabet of the CrlfLines harnesses: CR, LF, '-', the boundary byte 'b', another byte 'x'
    fn in_alphabet(c: u8) -> bool {
        c == b'\r' || c == b'\n' || c == b'-' || c == b'b' || c == b'x'
    }

    fn same_slice(a: &[u8], b: &[u8]) -> bool {
        a.len() == b.len() && (a.is_empty() || a.as_ptr() == b.as_ptr())
    }

    /// position of the LF of the first CRLF pair of `s`
    fn first_crlf<const N: usize>(s: &[u8; N]) -> Option<usize> {
        let mut p = None;
        let mut i = 1;
        while i < N {
            if p.is_none() && s[i - 1] == b'\r' && s[i] == b'\n' {
                p = Some(i);
            }
            i += 1;
        }
        p
    }

    /// `next_line` on every slice of N bytes over the alphabet: the line is the text before the first CRLF and the
    /// cursor moves behind that CRLF; without any CRLF an empty slice gives None and a non-empty one is handed out
    /// whole as an (unterminated) last line.
    fn next_line_case<const N: usize>() {
        let s: [u8; N] = kani::any();
        let mut k = 0;
        while k < N {
            kani::assume(in_alphabet(s[k]));
            k += 1;
        }
        let mut lines = CrlfLines { slice: &s };
        let got = lines.next_line();
        match first_crlf(&s) {
            Some(i) => {
                assert!(got.is_some());
                assert!(same_slice(got.unwrap(), &s[..i - 1]));
                assert!(same_slice(lines.slice, &s[i + 1..]));
            }
            None => {
                if N == 0 {
                    assert!(got.is_none());
                } else {
                    assert!(got.is_some() && same_slice(got.unwrap(), &s[..]));
                    assert!(lines.slice.is_empty());
                }
            }
        }
    }

    #[kani::proof]
    #[kani::unwind(18)] // memchr's byte-by-byte path for haystacks < 16 bytes
    #[kani::stub(core::arch::x86_64::__cpuid_count, cpuid_zero)]
    pub fn c09_p2_next_line_len0_3() {
        next_line_case::<0>();
        next_line_case::<1>();
        next_line_case::<2>();
        next_line_case::<3>();
        kani::cover!(true);
    }

    #[kani::proof]
    #[kani::unwind(18)]
    #[kani::stub(core::arch::x86_64::__cpuid_count, cpuid_zero)]
    pub fn c09_p2_next_line_len5() {
        next_line_case::<5>();
        kani::cover!(true);
    }

    /// `split_to(b"--b")` on every slice of N bytes over the alphabet: if some CRLF-terminated (or last
    /// unterminated) line equals the pattern, the answer is the text before that line (including the CRLF that
    /// precedes it) and the cursor moves behind the line; otherwise None and the cursor does not move.
    fn split_to_case<const N: usize>() {
        let s: [u8; N] = kani::any();
        let mut k = 0;
        while k < N {
            kani::assume(in_alphabet(s[k]));
            k += 1;
        }
        let pat = b"--b";
        // reference: scan line starts; a line starts at 0 and after every CRLF
        let mut start = 0; // start of the current line
        let mut found: Option<(usize, usize)> = None; // (start of the matching line, start of the rest)
        let mut i = 0;
        while i <= N {
            if found.is_none() {
                let at_crlf = i + 1 < N + 1 && i >= 1 && i < N && s[i - 1] == b'\r' && s[i] == b'\n';
                if at_crlf {
                    // the line is s[start..i-1]
                    if i - 1 >= start && i - 1 - start == 3 && s[start] == b'-' && s[start + 1] == b'-' && s[start + 2] == b'b' {
                        found = Some((start, i + 1));
                    }
                    start = i + 1;
                } else if i == N && start < N {
                    // unterminated last line s[start..N]
                    if N - start == 3 && s[start] == b'-' && s[start + 1] == b'-' && s[start + 2] == b'b' {
                        found = Some((start, N));
                    }
                }
            }
            i += 1;
        }
        let mut lines = CrlfLines { slice: &s };
        let got = lines.split_to(pat);
        match found {
            Some((line_start, rest)) => {
                assert!(got.is_some());
                assert!(same_slice(got.unwrap(), &s[..line_start]));
                assert!(same_slice(lines.slice, &s[rest..]));
            }
            None => {
                assert!(got.is_none());
                assert!(same_slice(lines.slice, &s[..]));
            }
        }
    }

    #[kani::proof]
    #[kani::unwind(18)]
    #[kani::stub(core::arch::x86_64::__cpuid_count, cpuid_zero)]
    pub fn c09_p2_split_to_len6() {
        split_to_case::<6>();
        kani::cover!(true);
    }

    // ------------------------------------------------------------------------------------------
    // try_parse on the growing buffer of transform_multipart: what the first frame may end in
    // ------------------------------------------------------------------------------------------

    /// a transport that is never polled by try_parse's early paths
    struct NoSrc;
    impl Stream for NoSrc {
        type Item = Result<Bytes, StdError>;
        fn poll_next(self: Pin<&mut Self>, _cx: &mut Context<'_>) -> Poll<Option<Self::Item>> {
            Poll::Ready(None)
        }
    }

    /// the beginning of a well-formed form with boundary "bb" (1 field "a" = "v", then the file part)
    static FORM: &[u8] = b"--bb\r\nContent-Disposition: form-data; name=\"a\"\r\n\r\nv\r\n--bb\r\nContent-Disposition: form-data; name=\"file\"; filename=\"f\"\r\nContent-Type: t\r\n\r\nXYZ\r\n--bb--\r\n";

    #[derive(Clone, Copy, PartialEq, Eq)]
    enum Verdict {
        NeedMore,
        Invalid,
        Parsed,
    }

    /// what `transform_multipart` decides after a first frame FORM[..c]
    fn first_frame_verdict(c: usize) -> Verdict {
        let mut fields = Vec::new();
        let pat: Box<[u8]> = Box::from(&b"--bb\r\n"[..]);
        let r = try_parse(Box::pin(NoSrc), pat, &FORM[..c], &mut fields, b"bb");
        let v = match &r {
            Err(_) => Verdict::NeedMore,
            Ok(Err(_)) => Verdict::Invalid,
            Ok(Ok(_)) => Verdict::Parsed,
        };
        core::mem::forget(r);
        core::mem::forget(fields);
        v
    }

    /// The whole form is well-formed, so whatever prefix the first frame carries the parser must wait for more
    /// data.  Main harness: prefixes that end exactly behind the boundary text ("--bb", c = 4) or behind the first
    /// boundary line (c = 6); the other prefixes of the first line are the role of finding
    /// `multipart_first_frame_inside_boundary_line`.
    #[kani::proof]
    #[kani::unwind(18)]
    #[kani::stub(core::arch::x86_64::__cpuid_count, cpuid_zero)]
    pub fn c09_p2_first_frame_boundary_line() {
        let c: usize = kani::any();
        kani::assume(c == 4 || c == 6);
        assert!(first_frame_verdict(c) == Verdict::NeedMore);
        kani::cover!(true);
    }

    /// FINDING multipart_first_frame_inside_boundary_line: a first frame that ends inside the first boundary line
    /// ("-", "--", "--b", "--bb\r") makes try_parse answer InvalidFormat (next_line hands out the partial line as a
    /// line), although the same bytes in one frame parse: the outcome depends on the framing.
    #[kani::proof]
    #[kani::unwind(18)]
    #[kani::stub(core::arch::x86_64::__cpuid_count, cpuid_zero)]
    pub fn c09_p2_finding_multipart_first_frame_inside_boundary_line() {
        let c: usize = kani::any();
        kani::assume(c >= 1 && c <= 5);
        assert!(first_frame_verdict(c) == Verdict::NeedMore, "a prefix of a well-formed form is refused as InvalidFormat");
        kani::cover!(true);
    }

    /// the same form in ONE frame parses (1 field, file part found): together with the finding above this shows that
    /// the verdict depends on the framing.  (all concrete; used by the native replay, heavy for CBMC: httparse + SSE2
    /// memchr on 150 bytes)
    #[kani::proof]
    #[kani::unwind(160)]
    #[kani::stub(core::arch::x86_64::__cpuid_count, cpuid_zero)]
    pub fn c09_p2_whole_form_parses() {
        assert!(first_frame_verdict(FORM.len()) == Verdict::Parsed);
        kani::cover!(true);
    }
}
