// in-crate Kani harnesses at the crate root of s3s (included under cfg(kani)); sees every `pub` item of the
// private modules (sig_v4, sig_v2, http, ops, utils).
mod verif_kani_lib {
    #[allow(unused_imports)]
    use super::*;

    /// runner self-test: reachable, trivially true
    #[kani::proof]
    fn selftest_incrate_ok() {
        let x: u8 = kani::any();
        assert!(x as u16 + 1 > 0);
        kani::cover!(true);
    }
}

// ---------------------------------------------------------------------------------------------------------
// C05/C06/C11/C01: signature parsers (AmzDate, AuthorizationV4, AmzContentSha256, PresignedUrlV4/V2,
// AuthorizationV2) and the OrderedQs leaf contract.  No crypto is reachable from any harness here.
// ---------------------------------------------------------------------------------------------------------
mod verif_kani_sig {
    #[allow(unused_imports)]
    use super::*;
    use crate::sig_v4::AmzDate;

    pub(crate) fn naive_memchr(x: u8, text: &[u8]) -> Option<usize> {
        let mut i = 0;
        while i < text.len() {
            if text[i] == x {
                return Some(i);
            }
            i += 1;
        }
        None
    }

    pub(crate) fn cpuid_zero(_leaf: u32, _sub: u32) -> core::arch::x86_64::CpuidResult {
        core::arch::x86_64::CpuidResult { eax: 0, ebx: 0, ecx: 0, edx: 0 }
    }

    /// `core::str::validations::run_utf8_validation` -> Ok(()): every harness that uses it constrains all input
    /// bytes to < 128 (ASCII), for which the real validator returns Ok(()) as well; the real one costs > 8 GB in
    /// CBMC on 16 symbolic bytes (pointer-alignment arithmetic of the word-at-a-time ASCII fast path).
    pub(crate) fn utf8_ok(_v: &[u8]) -> Result<(), core::str::Utf8Error> {
        Ok(())
    }

    fn is_digit(c: u8) -> bool {
        c >= b'0' && c <= b'9'
    }

    /// The x-amz-date format of the SigV4 specification: ISO 8601 basic `YYYYMMDD'T'HHMMSS'Z'`.
    fn amz_date_shape(x: &[u8]) -> bool {
        if x.len() != 16 {
            return false;
        }
        let mut i = 0;
        while i < 16 {
            let ok = match i {
                8 => x[i] == b'T',
                15 => x[i] == b'Z',
                _ => is_digit(x[i]),
            };
            if !ok {
                return false;
            }
            i += 1;
        }
        true
    }

    /// A. All 16-byte 7-bit inputs: `AmzDate::parse` accepts iff the text has the shape
    /// dddddddd'T'dddddd'Z' (no calendar validation is part of the format).
    #[kani::proof]
    #[kani::unwind(18)]
    #[kani::stub(core::str::validations::run_utf8_validation, utf8_ok)]
    fn c05_amzdate_parse_shape16() {
        let b: [u8; 16] = kani::any();
        let mut k = 0;
        while k < 16 {
            kani::assume(b[k] < 128);
            k += 1;
        }
        let s = core::str::from_utf8(&b).unwrap();
        let got = AmzDate::parse(s);
        assert!(got.is_ok() == amz_date_shape(&b));
        kani::cover!(got.is_ok());
        kani::cover!(got.is_err());
    }

    /// Regression harness for finding `digit_sub_overflow` (fixed in /repo by ed106f3): before the fix
    /// `utils::parser::digit` computed `c - b'0'` before testing `is_ascii_digit` (`then_some` is eager), so with
    /// overflow checks on (dev/test profile, and Kani) a byte below '0' at a digit position of x-amz-date panicked
    /// with "attempt to subtract with overflow" instead of being refused.  Witness: "2013/524T000000Z".
    #[kani::proof]
    #[kani::unwind(18)]
    #[kani::stub(core::str::validations::run_utf8_validation, utf8_ok)]
    pub(crate) fn c05_amzdate_digit_underflow_finding() {
        let c: u8 = kani::any();
        kani::assume(c < b'0');
        let pos: usize = kani::any();
        kani::assume(pos < 15 && pos != 8);
        let mut b = *b"20130524T000000Z";
        b[pos] = c;
        let got = AmzDate::parse(core::str::from_utf8(&b).unwrap());
        assert!(got.is_err());
        kani::cover!(true);
    }

    /// A. Lengths 0, 15, 17 (any 7-bit content, in particular a well-shaped 16-byte text cut by one byte or
    /// extended by one byte) are refused.
    #[kani::proof]
    #[kani::unwind(19)]
    #[kani::stub(core::str::validations::run_utf8_validation, utf8_ok)]
    fn c05_amzdate_parse_other_lengths() {
        let b: [u8; 17] = kani::any();
        let mut k = 0;
        while k < 17 {
            kani::assume(b[k] < 128);
            k += 1;
        }
        assert!(AmzDate::parse(core::str::from_utf8(&b[..15]).unwrap()).is_err());
        assert!(AmzDate::parse(core::str::from_utf8(&b[..17]).unwrap()).is_err());
        assert!(AmzDate::parse(core::str::from_utf8(&b[1..16]).unwrap()).is_err());
        assert!(AmzDate::parse("").is_err());
        kani::cover!(amz_date_shape(&b[..16]));
    }

    fn d2(x: &[u8], i: usize) -> u32 {
        ((x[i] - b'0') as u32) * 10 + (x[i + 1] - b'0') as u32
    }

    /// Gregorian calendar, written from the definition.
    fn days_in_month(y: u32, m: u32) -> u32 {
        match m {
            1 | 3 | 5 | 7 | 8 | 10 | 12 => 31,
            4 | 6 | 9 | 11 => 30,
            2 => {
                if (y % 4 == 0 && y % 100 != 0) || y % 400 == 0 {
                    29
                } else {
                    28
                }
            }
            _ => 0,
        }
    }

    /// A. Fields as read (the fields are private; they are observed through `to_time`, the only consumer besides
    /// the formatters): for every well-shaped 16-byte text, `to_time()` is Some iff the digits denote a valid
    /// Gregorian date and time of day (month 1..=12, day 1..=days_in_month, hour < 24, minute < 60, second < 60),
    /// and then year/month/day/hour/minute/second/nanosecond/offset of the instant equal the digits as read (UTC).
    /// (The `fmt_iso8601`/`fmt_date` round trip through core::fmt was tried: out of memory at 8 GB after 410 s.)
    #[kani::proof]
    #[kani::unwind(18)]
    #[kani::stub(core::str::validations::run_utf8_validation, utf8_ok)]
    fn c05_amzdate_fields_to_time() {
        let b: [u8; 16] = kani::any();
        kani::assume(amz_date_shape(&b));
        let s = core::str::from_utf8(&b).unwrap();
        let d = AmzDate::parse(s).ok().unwrap();
        let (yy, mo, dd) = (d2(&b, 0) * 100 + d2(&b, 2), d2(&b, 4), d2(&b, 6));
        let (hh, mi, ss) = (d2(&b, 9), d2(&b, 11), d2(&b, 13));
        let valid = mo >= 1 && mo <= 12 && dd >= 1 && dd <= days_in_month(yy, mo) && hh < 24 && mi < 60 && ss < 60;
        match d.to_time() {
            None => assert!(!valid),
            Some(t) => {
                assert!(valid);
                assert!(t.year() == yy as i32);
                assert!(t.month() as u8 as u32 == mo);
                assert!(t.day() as u32 == dd);
                assert!(t.hour() as u32 == hh && t.minute() as u32 == mi && t.second() as u32 == ss);
                assert!(t.nanosecond() == 0);
                assert!(t.offset().whole_seconds() == 0);
                kani::cover!(mo == 2 && dd == 29);
            }
        }
        kani::cover!(valid);
        kani::cover!(!valid);
    }

    // -----------------------------------------------------------------------------------------------------
    // D. AuthorizationV4::parse / CredentialV4::parse / AmzContentSha256::parse
    // -----------------------------------------------------------------------------------------------------
    use crate::sig_v4::{AmzContentSha256, AuthorizationV4, CredentialV4};

    fn put(buf: &mut [u8], at: &mut usize, seg: &[u8]) {
        let mut i = 0;
        while i < seg.len() {
            buf[*at] = seg[i];
            *at += 1;
            i += 1;
        }
    }

    fn eq_bytes(a: &str, b: &[u8]) -> bool {
        let a = a.as_bytes();
        if a.len() != b.len() {
            return false;
        }
        let mut i = 0;
        while i < b.len() {
            if a[i] != b[i] {
                return false;
            }
            i += 1;
        }
        true
    }

    /// Field alphabet of the structured header: every 7-bit byte that is not a delimiter of the grammar
    /// ('/', ',', ';', '=') nor ASCII white space nor a control character.
    fn field_byte(c: u8) -> bool {
        c > 0x20 && c < 0x7f && c != b'/' && c != b',' && c != b';' && c != b'='
    }

    fn any_field<const N: usize>() -> [u8; N] {
        let f: [u8; N] = kani::any();
        let mut i = 0;
        while i < N {
            kani::assume(field_byte(f[i]));
            i += 1;
        }
        f
    }

    // NOTE: a structured symbolic Authorization header was tried and dropped: the header with the real keywords is
    // >= 85 bytes, above CBMC's field-sensitivity limit of 64 array elements, so no byte of the buffer is
    // constant-propagated and every nom searcher loop unrolls to the bound (no end of symbolic execution in 400 s,
    // both with 6 symbolic fields and with only the last 3 bytes symbolic).  The credential part is covered
    // symbolically by `c05_credential_v4_fields` / `c05_credential_v4_scope_date`, the rest by concrete variants.

    /// Credential `A/20130524/R/S/aws4_request` where ONE of the three one-byte fields (position `pos`: 0 access key,
    /// 11 region, 13 service) is a symbolic byte of the field alphabet: accepted, fields exactly as written.
    /// (All three symbolic at once: 9.4 M variables / 20 M clauses, solver out of memory at 8 GB.)
    fn credential_field(pos: usize) {
        let mut b = *b"A/20130524/R/S/aws4_request";
        let f = any_field::<1>();
        b[pos] = f[0];
        let c = CredentialV4::parse(core::str::from_utf8(&b).unwrap()).ok().unwrap();
        assert!(eq_bytes(c.access_key_id, &b[0..1]));
        assert!(eq_bytes(c.date, b"20130524"));
        assert!(eq_bytes(c.aws_region, &b[11..12]));
        assert!(eq_bytes(c.aws_service, &b[13..14]));
        kani::cover!(true);
    }

    macro_rules! credential_field_harness {
        ($name:ident, $pos:expr) => {
            #[cfg(kani_unfinished)] // did not finish within the budget (see the C05/C06/C11 report); enable with --cfg kani_unfinished
            #[kani::proof]
            #[kani::unwind(14)]
            #[kani::stub(core::str::validations::run_utf8_validation, utf8_ok)]
            #[kani::stub(core::slice::memchr::memchr, naive_memchr)]
            #[kani::stub(core::arch::x86_64::__cpuid_count, cpuid_zero)]
            fn $name() {
                credential_field($pos);
            }
        };
    }
    credential_field_harness!(c05_credential_v4_field_access_key, 0);
    credential_field_harness!(c05_credential_v4_field_region, 11);
    credential_field_harness!(c05_credential_v4_field_service, 13);

    /// The 18 segments of the reference header are: `AWS4-HMAC-SHA256` | ` ` | `Credential=` | `AK` | `/` | `20130524` | `/` | `us` | `/` | `s3` | `/` | `aws4_request` | `,` | ` SignedHeaders=` | `host` | `,` | ` Signature=` | `ab`.
    /// VARIANTS[k] = (the header with segment k removed, whether it is still accepted).  Accepted are only the
    /// removals of an "emptiable" field: access key (3), region (7), the only signed-header name (14), signature
    /// (17) — the parser then returns that field empty; an empty value can never authenticate (no secret for "" /
    /// signature mismatch), so this is recorded as an observation, not a defect.
    const AUTH_FULL: &str = "AWS4-HMAC-SHA256 Credential=AK/20130524/us/s3/aws4_request, SignedHeaders=host, Signature=ab";
    const AUTH_VARIANTS: [(&str, bool); 18] = [
        (" Credential=AK/20130524/us/s3/aws4_request, SignedHeaders=host, Signature=ab", false), // without segment 0 'AWS4-HMAC-SHA256'
        ("AWS4-HMAC-SHA256Credential=AK/20130524/us/s3/aws4_request, SignedHeaders=host, Signature=ab", false), // without segment 1 ' '
        ("AWS4-HMAC-SHA256 AK/20130524/us/s3/aws4_request, SignedHeaders=host, Signature=ab", false), // without segment 2 'Credential='
        ("AWS4-HMAC-SHA256 Credential=/20130524/us/s3/aws4_request, SignedHeaders=host, Signature=ab", true), // without segment 3 'AK'
        ("AWS4-HMAC-SHA256 Credential=AK20130524/us/s3/aws4_request, SignedHeaders=host, Signature=ab", false), // without segment 4 '/'
        ("AWS4-HMAC-SHA256 Credential=AK//us/s3/aws4_request, SignedHeaders=host, Signature=ab", false), // without segment 5 '20130524'
        ("AWS4-HMAC-SHA256 Credential=AK/20130524us/s3/aws4_request, SignedHeaders=host, Signature=ab", false), // without segment 6 '/'
        ("AWS4-HMAC-SHA256 Credential=AK/20130524//s3/aws4_request, SignedHeaders=host, Signature=ab", true), // without segment 7 'us'
        ("AWS4-HMAC-SHA256 Credential=AK/20130524/uss3/aws4_request, SignedHeaders=host, Signature=ab", false), // without segment 8 '/'
        ("AWS4-HMAC-SHA256 Credential=AK/20130524/us//aws4_request, SignedHeaders=host, Signature=ab", false), // without segment 9 's3'
        ("AWS4-HMAC-SHA256 Credential=AK/20130524/us/s3aws4_request, SignedHeaders=host, Signature=ab", false), // without segment 10 '/'
        ("AWS4-HMAC-SHA256 Credential=AK/20130524/us/s3/, SignedHeaders=host, Signature=ab", false), // without segment 11 'aws4_request'
        ("AWS4-HMAC-SHA256 Credential=AK/20130524/us/s3/aws4_request SignedHeaders=host, Signature=ab", false), // without segment 12 ','
        ("AWS4-HMAC-SHA256 Credential=AK/20130524/us/s3/aws4_request,host, Signature=ab", false), // without segment 13 ' SignedHeaders='
        ("AWS4-HMAC-SHA256 Credential=AK/20130524/us/s3/aws4_request, SignedHeaders=, Signature=ab", true), // without segment 14 'host'
        ("AWS4-HMAC-SHA256 Credential=AK/20130524/us/s3/aws4_request, SignedHeaders=host Signature=ab", false), // without segment 15 ','
        ("AWS4-HMAC-SHA256 Credential=AK/20130524/us/s3/aws4_request, SignedHeaders=host,ab", false), // without segment 16 ' Signature='
        ("AWS4-HMAC-SHA256 Credential=AK/20130524/us/s3/aws4_request, SignedHeaders=host, Signature=", true), // without segment 17 'ab'
    ];

    /// The reference header is accepted; for every keyword / delimiter / mandatory segment k the header without it is
    /// refused (emptiable fields: accepted, see above).  Also refused: an invalid calendar date in the scope
    /// (20200931) and trailing text after the signature.  All inputs concrete (string literals).
    fn auth_v4_variants(from: usize, to: usize) {
        let mut k = from;
        while k < to {
            let (h, ok) = AUTH_VARIANTS[k];
            let r = AuthorizationV4::parse(h);
            assert!(r.is_ok() == ok);
            core::mem::forget(r);
            k += 1;
        }
        kani::cover!(true);
    }

    macro_rules! auth_variants_harness {
        ($name:ident, $from:expr, $to:expr) => {
            #[cfg(kani_unfinished)] // did not finish within the budget (see the C05/C06/C11 report); enable with --cfg kani_unfinished
            #[kani::proof]
            #[kani::unwind(100)] // inputs are concrete literals (<= 96 bytes): the bound only has to exceed their length
            #[kani::stub(core::str::validations::run_utf8_validation, utf8_ok)]
            #[kani::stub(core::slice::memchr::memchr, naive_memchr)]
            #[kani::stub(core::arch::x86_64::__cpuid_count, cpuid_zero)]
            fn $name() {
                auth_v4_variants($from, $to);
            }
        };
    }
    auth_variants_harness!(c05_authorization_v4_missing_component_a, 0, 6);
    auth_variants_harness!(c05_authorization_v4_missing_component_b, 6, 12);
    auth_variants_harness!(c05_authorization_v4_missing_component_c, 12, 18);

    #[cfg(kani_unfinished)] // did not finish within the budget (see the C05/C06/C11 report); enable with --cfg kani_unfinished
    #[kani::proof]
    #[kani::unwind(20)]
    #[kani::stub(core::str::validations::run_utf8_validation, utf8_ok)]
    #[kani::stub(core::slice::memchr::memchr, naive_memchr)]
    #[kani::stub(core::arch::x86_64::__cpuid_count, cpuid_zero)]
    fn c05_authorization_v4_reference_header() {
        let a = AuthorizationV4::parse(AUTH_FULL).ok().unwrap();
        assert!(eq_bytes(a.algorithm, b"AWS4-HMAC-SHA256"));
        assert!(eq_bytes(a.credential.access_key_id, b"AK"));
        assert!(eq_bytes(a.credential.date, b"20130524"));
        assert!(eq_bytes(a.credential.aws_region, b"us"));
        assert!(eq_bytes(a.credential.aws_service, b"s3"));
        assert!(a.signed_headers.len() == 1 && eq_bytes(a.signed_headers[0], b"host"));
        assert!(eq_bytes(a.signature, b"ab"));
        core::mem::forget(a);
        kani::cover!(true);
    }

    /// Also refused: an invalid calendar date in the scope (20200931), trailing text after the signature.
    #[cfg(kani_unfinished)] // did not finish within the budget (see the C05/C06/C11 report); enable with --cfg kani_unfinished
    #[kani::proof]
    #[kani::unwind(100)]
    #[kani::stub(core::str::validations::run_utf8_validation, utf8_ok)]
    #[kani::stub(core::slice::memchr::memchr, naive_memchr)]
    #[kani::stub(core::arch::x86_64::__cpuid_count, cpuid_zero)]
    fn c05_authorization_v4_bad_date_trailing() {
        let bad_date = "AWS4-HMAC-SHA256 Credential=AK/20200931/us/s3/aws4_request, SignedHeaders=host, Signature=ab";
        let r = AuthorizationV4::parse(bad_date);
        assert!(r.is_err());
        core::mem::forget(r);
        let trailing = "AWS4-HMAC-SHA256 Credential=AK/20130524/us/s3/aws4_request, SignedHeaders=host, Signature=ab cd";
        let r = AuthorizationV4::parse(trailing);
        assert!(r.is_err());
        core::mem::forget(r);
        kani::cover!(true);
    }

    /// Credential scope `a/2012<MMDD>/r/s/aws4_request` with 4 symbolic digits (CredentialV4::parse, used for
    /// X-Amz-Credential and inside the Authorization header): accepted iff MMDD is a valid day of the (leap) year
    /// 2012, and the fields are returned as written.
    #[cfg(kani_unfinished)] // did not finish within the budget (see the C05/C06/C11 report); enable with --cfg kani_unfinished
    #[kani::proof]
    #[kani::unwind(16)]
    #[kani::stub(core::str::validations::run_utf8_validation, utf8_ok)]
    #[kani::stub(core::slice::memchr::memchr, naive_memchr)]
    #[kani::stub(core::arch::x86_64::__cpuid_count, cpuid_zero)]
    fn c05_credential_v4_scope_date() {
        let mut d = *b"20120000";
        let mut i = 4;
        while i < 8 {
            let c: u8 = kani::any();
            kani::assume(is_digit(c));
            d[i] = c;
            i += 1;
        }
        let mut buf = [0u8; 32];
        let mut n = 0usize;
        put(&mut buf, &mut n, b"a/");
        put(&mut buf, &mut n, &d);
        put(&mut buf, &mut n, b"/r/s/aws4_request");
        let r = CredentialV4::parse(core::str::from_utf8(&buf[..n]).unwrap());
        let (yy, mo, dd) = (d2(&d, 0) * 100 + d2(&d, 2), d2(&d, 4), d2(&d, 6));
        let valid = mo >= 1 && mo <= 12 && dd >= 1 && dd <= days_in_month(yy, mo);
        match r {
            Ok(c) => {
                assert!(valid);
                assert!(eq_bytes(c.access_key_id, b"a") && eq_bytes(c.date, &d));
                assert!(eq_bytes(c.aws_region, b"r") && eq_bytes(c.aws_service, b"s"));
            }
            Err(_) => assert!(!valid),
        }
        kani::cover!(valid);
        kani::cover!(!valid);
    }

    /// x-amz-content-sha256: the two literals map to their variants; a 64-byte value whose first two and last bytes
    /// are symbolic (7-bit) and the rest lowercase hex is SingleChunk(the value) iff those bytes are lowercase hex,
    /// else refused; 63/65 hex digits, upper-case hex, the empty string and the trailer/ECDSA literals that the
    /// crate does not implement are refused.
    #[kani::proof]
    #[kani::unwind(70)]
    #[kani::stub(core::str::validations::run_utf8_validation, utf8_ok)]
    fn c05_amz_content_sha256_parse() {
        assert!(matches!(AmzContentSha256::parse("UNSIGNED-PAYLOAD"), Ok(AmzContentSha256::UnsignedPayload)));
        assert!(matches!(
            AmzContentSha256::parse("STREAMING-AWS4-HMAC-SHA256-PAYLOAD"),
            Ok(AmzContentSha256::MultipleChunks)
        ));
        let mut b = *b"e3b0c44298fc1c149afbf4c8996fb92427ae41e4649b934ca495991b7852b855";
        let (x, y, z): (u8, u8, u8) = (kani::any(), kani::any(), kani::any());
        kani::assume(x < 128 && y < 128 && z < 128);
        b[0] = x;
        b[1] = y;
        b[63] = z;
        let lower_hex = |c: u8| (c >= b'0' && c <= b'9') || (c >= b'a' && c <= b'f');
        let want = lower_hex(x) && lower_hex(y) && lower_hex(z);
        match AmzContentSha256::parse(core::str::from_utf8(&b).unwrap()) {
            Ok(AmzContentSha256::SingleChunk { payload_checksum }) => {
                assert!(want);
                assert!(eq_bytes(payload_checksum, &b));
            }
            Ok(_) => panic!("a 64-byte value is not a mode literal"),
            Err(_) => assert!(!want),
        }
        kani::cover!(want);
        kani::cover!(!want);
        let c = *b"e3b0c44298fc1c149afbf4c8996fb92427ae41e4649b934ca495991b7852b855a";
        assert!(AmzContentSha256::parse(core::str::from_utf8(&c[..63]).unwrap()).is_err());
        assert!(AmzContentSha256::parse(core::str::from_utf8(&c[..65]).unwrap()).is_err());
        assert!(AmzContentSha256::parse("").is_err());
        assert!(AmzContentSha256::parse("unsigned-payload").is_err());
        assert!(AmzContentSha256::parse("STREAMING-UNSIGNED-PAYLOAD-TRAILER").is_err());
        assert!(AmzContentSha256::parse("STREAMING-AWS4-HMAC-SHA256-PAYLOAD-TRAILER").is_err());
    }

    // -----------------------------------------------------------------------------------------------------
    // C. AuthorizationV2::parse: "AWS" SP access-key ":" signature
    // -----------------------------------------------------------------------------------------------------
    use crate::sig_v2::AuthorizationV2;

    /// All N-byte headers over the alphabet {'A','W','S',' ',':','x'}: accepted iff the text starts with "AWS " and
    /// the remainder contains ':'; access key = text between "AWS " and the FIRST ':', signature = everything after.
    fn auth_v2<const N: usize>() {
        let b: [u8; N] = kani::any();
        let mut i = 0;
        while i < N {
            let c = b[i];
            kani::assume(c == b'A' || c == b'W' || c == b'S' || c == b' ' || c == b':' || c == b'x');
            i += 1;
        }
        let got = AuthorizationV2::parse(core::str::from_utf8(&b).unwrap());
        let prefix = N >= 4 && b[0] == b'A' && b[1] == b'W' && b[2] == b'S' && b[3] == b' ';
        let mut colon = N;
        if prefix {
            let mut i = N;
            while i > 4 {
                i -= 1;
                if b[i] == b':' {
                    colon = i;
                }
            }
        }
        match got {
            Ok(a) => {
                assert!(prefix && colon < N);
                assert!(eq_bytes(a.access_key, &b[4..colon]));
                assert!(eq_bytes(a.signature, &b[colon + 1..]));
            }
            Err(_) => assert!(!(prefix && colon < N)),
        }
        kani::cover!(prefix && colon < N);
        kani::cover!(!prefix);
    }

    #[cfg(kani_unfinished)] // did not finish within the budget (see the C05/C06/C11 report); enable with --cfg kani_unfinished
    #[kani::proof]
    #[kani::unwind(12)]
    #[kani::stub(core::str::validations::run_utf8_validation, utf8_ok)]
    #[kani::stub(core::slice::memchr::memchr, naive_memchr)]
    #[kani::stub(core::arch::x86_64::__cpuid_count, cpuid_zero)]
    fn c11_authorization_v2_parse_len8() {
        auth_v2::<8>();
    }

    #[kani::proof]
    #[kani::unwind(12)]
    #[kani::stub(core::str::validations::run_utf8_validation, utf8_ok)]
    #[kani::stub(core::slice::memchr::memchr, naive_memchr)]
    #[kani::stub(core::arch::x86_64::__cpuid_count, cpuid_zero)]
    fn c11_authorization_v2_parse_len5() {
        auth_v2::<5>();
    }
}

// ---------------------------------------------------------------------------------------------------------
// C01 leaf: OrderedQs::has / get_unique / get_all (the solver-side axioms of the router model)
// ---------------------------------------------------------------------------------------------------------
mod verif_kani_qs {
    #[allow(unused_imports)]
    use super::*;
    use super::verif_kani_sig::{cpuid_zero, naive_memchr, utf8_ok};
    use crate::http::OrderedQs;

    const NAMES: [&str; 2] = ["a", "b"];
    const VALUES: [&str; 3] = ["0", "1", "2"];

    /// N pairs (name_i, value_i): name_i is "a" or "b" by a symbolic flag, value_i is the decimal input position (so
    /// values identify the input order); the container is built by `OrderedQs::kani_from_vec` (= from_vec_unchecked,
    /// which is cfg(test) only; `OrderedQs::parse` = serde_urlencoded did not finish symbolic execution in 600 s).
    /// Checks for both names n in {a,b} and for the absent name "c":  has(n) <=> some pair is named n;
    /// get_unique(n) = Some(value) iff exactly one pair is named n (None for 0 or >= 2);  get_all(n) yields exactly
    /// the values of the pairs named n in input order.
    fn leaf<const N: usize>() {
        let mut flags = [false; N];
        let mut v: Vec<(String, String)> = Vec::with_capacity(N);
        let mut i = 0;
        while i < N {
            flags[i] = kani::any();
            v.push((String::from(NAMES[flags[i] as usize]), String::from(VALUES[i])));
            i += 1;
        }
        let qs = OrderedQs::kani_from_vec(v);
        assert!(qs.as_ref().len() == N);

        let probes: [(&str, u8); 3] = [("a", 0), ("b", 1), ("c", 2)];
        let mut p = 0;
        while p < 3 {
            let (name, which) = probes[p];
            // reference: positions named `name`, in input order
            let mut cnt = 0usize;
            let mut pos = [0u8; N];
            let mut i = 0;
            while i < N {
                if flags[i] as u8 == which {
                    pos[cnt] = b'0' + i as u8;
                    cnt += 1;
                }
                i += 1;
            }
            assert!(qs.has(name) == (cnt > 0));
            match qs.get_unique(name) {
                Some(v) => {
                    assert!(cnt == 1);
                    assert!(v.len() == 1 && v.as_bytes()[0] == pos[0]);
                }
                None => assert!(cnt != 1),
            }
            let mut k = 0usize;
            for v in qs.get_all(name) {
                assert!(k < cnt);
                assert!(v.len() == 1 && v.as_bytes()[0] == pos[k]);
                k += 1;
            }
            assert!(k == cnt);
            p += 1;
        }
        core::mem::forget(qs);
        kani::cover!(true);
    }

    #[kani::proof]
    #[kani::unwind(8)]
    #[kani::stub(core::str::validations::run_utf8_validation, utf8_ok)]
    #[kani::stub(core::slice::memchr::memchr, naive_memchr)]
    #[kani::stub(core::arch::x86_64::__cpuid_count, cpuid_zero)]
    fn c01_ordered_qs_leaf_2pairs() {
        leaf::<2>();
    }

    #[cfg(kani_unfinished)] // did not finish within the budget (see the C05/C06/C11 report); enable with --cfg kani_unfinished
    #[kani::proof]
    #[kani::unwind(12)]
    #[kani::stub(core::str::validations::run_utf8_validation, utf8_ok)]
    #[kani::stub(core::slice::memchr::memchr, naive_memchr)]
    #[kani::stub(core::arch::x86_64::__cpuid_count, cpuid_zero)]
    fn c01_ordered_qs_leaf_3pairs() {
        leaf::<3>();
    }
}
#[allow(unused_imports)]
use self::verif_kani_sig::c05_amzdate_digit_underflow_finding; // in scope for the runner's playback test
