// in-crate Kani harnesses at the crate root of s3s (included under cfg(kani)); sees every `pub` item of the
// private modules (sig_v4, sig_v2, http, ops, utils).
mod verif_kani_lib {
    #[allow(unused_imports)]
    use super::*;

    /// runner self-test: reachable, trivially true
    #[kani::proof]
    fn selftest_incrate_ok() {
        let x: u8 = kani::any();
        assert!(x as u16 + 1 > 0);
        kani::cover!(true);
    }
}
