// in-crate Kani harness support for http/ordered_qs.rs (included under cfg(kani)).
// `OrderedQs::from_vec_unchecked` is #[cfg(test)] only and the only other constructor, `OrderedQs::parse`
// (serde_urlencoded), costs > 600 s of symbolic execution for a 7-byte query: harnesses build the container with
// this constructor (same body as from_vec_unchecked: stable sort by name).
impl OrderedQs {
    pub(crate) fn kani_from_vec(mut v: Vec<(String, String)>) -> Self {
        stable_sort_by_first(&mut v);
        Self { qs: v }
    }

    /// Precondition: `v` is already sorted by name (the harness passes a literal, visibly sorted list); skips the
    /// sort, whose symbolic execution over heap Strings is the dominant cost of the window harnesses.
    pub(crate) fn kani_from_sorted_vec(v: Vec<(String, String)>) -> Self {
        let mut i = 1;
        while i < v.len() {
            assert!(v[i - 1].0 <= v[i].0, "kani_from_sorted_vec: precondition violated");
            i += 1;
        }
        Self { qs: v }
    }
}
