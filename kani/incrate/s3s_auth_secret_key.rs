// in-crate Kani harnesses included into the real crate under cfg(kani) (see MANIFEST.hooks)
// C16 (S1): auth/secret_key.rs — `SecretKey`, `Credentials`.
//
// Property: "Secret access keys held by the adapter never appear in anything it emits: ... not in the Debug or
// serialised form of any public value that contains them."
//
// Method: 2-safety (non-interference) by self-composition.  Two secrets of concrete lengths (L1, L2), symbolic
// bytes, are wrapped into `SecretKey` / `Credentials` (fixed access key "AK"); what `Debug` writes into a
// `core::fmt::Write` sink and what `serde::Serialize` hands to a recording `Serializer` must be byte-for-byte
// identical for both (length + bytes, position-wise).  `core::fmt` is the subject and is NOT stubbed.  A second
// obligation (no-leak) takes a secret over characters that no identifier / placeholder word contains
// ({'0'..'9', '~'}) and requires that no emitted byte equals any byte of the secret.  `expose()` is checked to
// return exactly the wrapped bytes, so the values under test do hold the secret (non-vacuity).
//
// Alphabet of every symbolic secret byte: printable ASCII 0x20..=0x7e (no-leak harnesses: {'0'..'9', '~'}).
pub(crate) mod verif_kani_secret {
    use super::*;
    use core::fmt::Write as _;
    use core::mem::forget;

    const CAP: usize = 96;

    /// `core::fmt::Write` / recording sink on the stack
    struct Sink {
        b: [u8; CAP],
        n: usize,
        overflow: bool,
        calls: usize,
        /// what `Serializer::is_human_readable` answers (symbolic in the harnesses: the property quantifies over formats)
        human: bool,
    }

    impl Sink {
        fn new() -> Self {
            Self {
                b: [0; CAP],
                n: 0,
                overflow: false,
                calls: 0,
                human: true,
            }
        }

        fn put(&mut self, src: &[u8]) {
            self.calls += 1;
            let end = self.n + src.len();
            if end <= CAP {
                self.b[self.n..end].copy_from_slice(src);
                self.n = end;
            } else {
                self.overflow = true;
            }
        }
    }

    impl fmt::Write for Sink {
        fn write_str(&mut self, s: &str) -> fmt::Result {
            self.put(s.as_bytes());
            Ok(())
        }
    }

    fn assume_printable(b: &[u8]) {
        let mut i = 0;
        while i < b.len() {
            kani::assume(b[i] >= 0x20 && b[i] <= 0x7e);
            i += 1;
        }
    }

    fn assume_digits(b: &[u8]) {
        let mut i = 0;
        while i < b.len() {
            kani::assume((b[i] >= b'0' && b[i] <= b'9') || b[i] == b'~');
            i += 1;
        }
    }

    /// safe view (the crate forbids unsafe code); the bytes are ASCII by assumption
    fn text(b: &[u8]) -> &str {
        core::str::from_utf8(b).unwrap()
    }

    /// stub of `core::str::validations::run_utf8_validation` (STYLE.md 4b): sound because the only texts
    /// validated in these harnesses are the secrets, whose bytes are assumed ASCII
    fn utf8_ok(_v: &[u8]) -> Result<(), core::str::Utf8Error> {
        Ok(())
    }

    fn same_output(x: &Sink, y: &Sink) -> bool {
        if x.overflow || y.overflow || x.n != y.n {
            return false;
        }
        let mut i = 0;
        while i < x.n {
            if x.b[i] != y.b[i] {
                return false;
            }
            i += 1;
        }
        true
    }

    /// some emitted byte equals some byte of the secret
    fn shares_a_byte(x: &Sink, secret: &[u8]) -> bool {
        let mut i = 0;
        while i < x.n {
            let mut j = 0;
            while j < secret.len() {
                if x.b[i] == secret[j] {
                    return true;
                }
                j += 1;
            }
            i += 1;
        }
        false
    }

    // ----------------------------------------------------------------------------------------------
    // recording serde::Serializer: text / byte payloads are copied into the sink, every other data-model
    // call is refused by a panic (= harness failure: the emitter took a route that is not recorded)
    // ----------------------------------------------------------------------------------------------

    #[derive(Debug)]
    struct RecErr;

    impl fmt::Display for RecErr {
        fn fmt(&self, f: &mut fmt::Formatter<'_>) -> fmt::Result {
            f.write_str("RecErr")
        }
    }

    impl std::error::Error for RecErr {}

    impl serde::ser::Error for RecErr {
        fn custom<T: fmt::Display>(_msg: T) -> Self {
            RecErr
        }
    }

    type No = serde::ser::Impossible<(), RecErr>;

    impl serde::Serializer for &mut Sink {
        type Ok = ();
        type Error = RecErr;
        type SerializeSeq = No;
        type SerializeTuple = No;
        type SerializeTupleStruct = No;
        type SerializeTupleVariant = No;
        type SerializeMap = No;
        type SerializeStruct = No;
        type SerializeStructVariant = No;

        fn is_human_readable(&self) -> bool {
            self.human
        }
        fn serialize_str(self, v: &str) -> Result<(), RecErr> {
            self.put(v.as_bytes());
            Ok(())
        }
        fn serialize_bytes(self, v: &[u8]) -> Result<(), RecErr> {
            self.put(v);
            Ok(())
        }
        fn serialize_bool(self, _v: bool) -> Result<(), RecErr> {
            unreachable!()
        }
        fn serialize_i8(self, _v: i8) -> Result<(), RecErr> {
            unreachable!()
        }
        fn serialize_i16(self, _v: i16) -> Result<(), RecErr> {
            unreachable!()
        }
        fn serialize_i32(self, _v: i32) -> Result<(), RecErr> {
            unreachable!()
        }
        fn serialize_i64(self, _v: i64) -> Result<(), RecErr> {
            unreachable!()
        }
        fn serialize_u8(self, _v: u8) -> Result<(), RecErr> {
            unreachable!()
        }
        fn serialize_u16(self, _v: u16) -> Result<(), RecErr> {
            unreachable!()
        }
        fn serialize_u32(self, _v: u32) -> Result<(), RecErr> {
            unreachable!()
        }
        fn serialize_u64(self, _v: u64) -> Result<(), RecErr> {
            unreachable!()
        }
        fn serialize_f32(self, _v: f32) -> Result<(), RecErr> {
            unreachable!()
        }
        fn serialize_f64(self, _v: f64) -> Result<(), RecErr> {
            unreachable!()
        }
        fn serialize_char(self, _v: char) -> Result<(), RecErr> {
            unreachable!()
        }
        fn serialize_none(self) -> Result<(), RecErr> {
            unreachable!()
        }
        fn serialize_some<T: ?Sized + Serialize>(self, _value: &T) -> Result<(), RecErr> {
            unreachable!()
        }
        fn serialize_unit(self) -> Result<(), RecErr> {
            unreachable!()
        }
        fn serialize_unit_struct(self, _name: &'static str) -> Result<(), RecErr> {
            unreachable!()
        }
        fn serialize_unit_variant(self, _name: &'static str, _i: u32, _variant: &'static str) -> Result<(), RecErr> {
            unreachable!()
        }
        fn serialize_newtype_struct<T: ?Sized + Serialize>(self, _name: &'static str, _value: &T) -> Result<(), RecErr> {
            unreachable!()
        }
        fn serialize_newtype_variant<T: ?Sized + Serialize>(
            self,
            _name: &'static str,
            _i: u32,
            _variant: &'static str,
            _value: &T,
        ) -> Result<(), RecErr> {
            unreachable!()
        }
        fn serialize_seq(self, _len: Option<usize>) -> Result<No, RecErr> {
            unreachable!()
        }
        fn serialize_tuple(self, _len: usize) -> Result<No, RecErr> {
            unreachable!()
        }
        fn serialize_tuple_struct(self, _name: &'static str, _len: usize) -> Result<No, RecErr> {
            unreachable!()
        }
        fn serialize_tuple_variant(
            self,
            _name: &'static str,
            _i: u32,
            _variant: &'static str,
            _len: usize,
        ) -> Result<No, RecErr> {
            unreachable!()
        }
        fn serialize_map(self, _len: Option<usize>) -> Result<No, RecErr> {
            unreachable!()
        }
        fn serialize_struct(self, _name: &'static str, _len: usize) -> Result<No, RecErr> {
            unreachable!()
        }
        fn serialize_struct_variant(
            self,
            _name: &'static str,
            _i: u32,
            _variant: &'static str,
            _len: usize,
        ) -> Result<No, RecErr> {
            unreachable!()
        }
    }

    // ----------------------------------------------------------------------------------------------
    // the three emitters
    // ----------------------------------------------------------------------------------------------

    fn emit_debug_key(k: &SecretKey) -> Sink {
        let mut o = Sink::new();
        let r = write!(o, "{:?}", k);
        assert!(r.is_ok());
        o
    }

    fn emit_debug_cred(c: &Credentials) -> Sink {
        let mut o = Sink::new();
        let r = write!(o, "{:?}", c);
        assert!(r.is_ok());
        o
    }

    fn emit_serialize_key(k: &SecretKey, human: bool) -> Sink {
        let mut o = Sink::new();
        o.human = human;
        let r = k.serialize(&mut o);
        assert!(r.is_ok());
        forget(r);
        o
    }

    fn cred(secret: &[u8]) -> Credentials {
        Credentials {
            access_key: String::from("AK"),
            secret_key: SecretKey::from(text(secret)),
        }
    }

    // ----------------------------------------------------------------------------------------------
    // expose(): the wrapped value is the secret (so the harnesses below are about values holding it)
    // ----------------------------------------------------------------------------------------------

    fn expose_exact<const L: usize>() {
        let s: [u8; L] = kani::any();
        assume_printable(&s);
        let k = SecretKey::from(text(&s));
        let e = k.expose().as_bytes();
        assert!(e.len() == L);
        let mut i = 0;
        while i < L {
            assert!(e[i] == s[i]);
            i += 1;
        }
        let c = cred(&s);
        let e = c.secret_key.expose().as_bytes();
        assert!(e.len() == L);
        let mut i = 0;
        while i < L {
            assert!(e[i] == s[i]);
            i += 1;
        }
        kani::cover!(true);
        forget(k);
        forget(c);
    }

    #[kani::proof]
    #[kani::unwind(5)]
    #[kani::stub(core::str::validations::run_utf8_validation, utf8_ok)]
    pub(crate) fn c16_expose_exact_1() {
        expose_exact::<1>();
    }
    #[kani::proof]
    #[kani::unwind(5)]
    #[kani::stub(core::str::validations::run_utf8_validation, utf8_ok)]
    pub(crate) fn c16_expose_exact_3() {
        expose_exact::<3>();
    }

    // ----------------------------------------------------------------------------------------------
    // non-interference
    // ----------------------------------------------------------------------------------------------

    fn ni_debug_key<const L1: usize, const L2: usize>() {
        let s1: [u8; L1] = kani::any();
        assume_printable(&s1);
        let s2: [u8; L2] = kani::any();
        assume_printable(&s2);
        let k1 = SecretKey::from(text(&s1));
        let k2 = SecretKey::from(text(&s2));
        let o1 = emit_debug_key(&k1);
        let o2 = emit_debug_key(&k2);
        assert!(o1.n > 0, "nothing was emitted");
        assert!(same_output(&o1, &o2), "Debug of SecretKey depends on the secret");
        kani::cover!(true);
        forget(k1);
        forget(k2);
    }

    fn ni_debug_cred<const L1: usize, const L2: usize>() {
        let s1: [u8; L1] = kani::any();
        assume_printable(&s1);
        let s2: [u8; L2] = kani::any();
        assume_printable(&s2);
        let c1 = cred(&s1);
        let c2 = cred(&s2);
        let o1 = emit_debug_cred(&c1);
        let o2 = emit_debug_cred(&c2);
        assert!(o1.n > 0, "nothing was emitted");
        assert!(same_output(&o1, &o2), "Debug of Credentials depends on the secret");
        kani::cover!(true);
        forget(c1);
        forget(c2);
    }

    fn ni_serialize_key<const L1: usize, const L2: usize>() {
        let s1: [u8; L1] = kani::any();
        assume_printable(&s1);
        let s2: [u8; L2] = kani::any();
        assume_printable(&s2);
        let k1 = SecretKey::from(text(&s1));
        let k2 = SecretKey::from(text(&s2));
        let human: bool = kani::any(); // the same format for both runs, human-readable or binary
        let o1 = emit_serialize_key(&k1, human);
        let o2 = emit_serialize_key(&k2, human);
        assert!(o1.calls == 1 && o2.calls == 1, "exactly one payload is handed to the serializer");
        assert!(same_output(&o1, &o2), "Serialize of SecretKey depends on the secret");
        kani::cover!(true);
        forget(k1);
        forget(k2);
    }

    // ----------------------------------------------------------------------------------------------
    // no-leak: a secret over {'0'..'9', '~'} shares no byte with anything emitted
    // ----------------------------------------------------------------------------------------------

    fn no_leak<const L: usize>() {
        let s: [u8; L] = kani::any();
        assume_digits(&s);
        let c = cred(&s);
        let o = emit_debug_key(&c.secret_key);
        assert!(!shares_a_byte(&o, &s), "Debug of SecretKey shows a byte of the secret");
        let o = emit_debug_cred(&c);
        assert!(!shares_a_byte(&o, &s), "Debug of Credentials shows a byte of the secret");
        let o = emit_serialize_key(&c.secret_key, kani::any());
        assert!(!shares_a_byte(&o, &s), "Serialize of SecretKey shows a byte of the secret");
        kani::cover!(true);
        forget(c);
    }

    // (harnesses are written out as plain functions: the runner's native playback locates `fn <name>(` here)

    #[kani::proof]
    #[kani::unwind(100)]
    #[kani::stub(core::str::validations::run_utf8_validation, utf8_ok)]
    pub(crate) fn c16_ni_debug_key_1_1() {
        ni_debug_key::<1, 1>();
    }
    #[kani::proof]
    #[kani::unwind(100)]
    #[kani::stub(core::str::validations::run_utf8_validation, utf8_ok)]
    pub(crate) fn c16_ni_debug_key_2_2() {
        ni_debug_key::<2, 2>();
    }
    #[kani::proof]
    #[kani::unwind(100)]
    #[kani::stub(core::str::validations::run_utf8_validation, utf8_ok)]
    pub(crate) fn c16_ni_debug_key_3_3() {
        ni_debug_key::<3, 3>();
    }
    #[kani::proof]
    #[kani::unwind(100)]
    #[kani::stub(core::str::validations::run_utf8_validation, utf8_ok)]
    pub(crate) fn c16_ni_debug_key_1_2() {
        ni_debug_key::<1, 2>();
    }
    #[kani::proof]
    #[kani::unwind(100)]
    #[kani::stub(core::str::validations::run_utf8_validation, utf8_ok)]
    pub(crate) fn c16_ni_debug_key_1_3() {
        ni_debug_key::<1, 3>();
    }
    #[kani::proof]
    #[kani::unwind(100)]
    #[kani::stub(core::str::validations::run_utf8_validation, utf8_ok)]
    pub(crate) fn c16_ni_debug_key_2_3() {
        ni_debug_key::<2, 3>();
    }

    #[kani::proof]
    #[kani::unwind(100)]
    #[kani::stub(core::str::validations::run_utf8_validation, utf8_ok)]
    pub(crate) fn c16_ni_debug_cred_1_1() {
        ni_debug_cred::<1, 1>();
    }
    #[kani::proof]
    #[kani::unwind(100)]
    #[kani::stub(core::str::validations::run_utf8_validation, utf8_ok)]
    pub(crate) fn c16_ni_debug_cred_2_2() {
        ni_debug_cred::<2, 2>();
    }
    #[kani::proof]
    #[kani::unwind(100)]
    #[kani::stub(core::str::validations::run_utf8_validation, utf8_ok)]
    pub(crate) fn c16_ni_debug_cred_3_3() {
        ni_debug_cred::<3, 3>();
    }
    #[kani::proof]
    #[kani::unwind(100)]
    #[kani::stub(core::str::validations::run_utf8_validation, utf8_ok)]
    pub(crate) fn c16_ni_debug_cred_1_2() {
        ni_debug_cred::<1, 2>();
    }
    #[kani::proof]
    #[kani::unwind(100)]
    #[kani::stub(core::str::validations::run_utf8_validation, utf8_ok)]
    pub(crate) fn c16_ni_debug_cred_1_3() {
        ni_debug_cred::<1, 3>();
    }
    #[kani::proof]
    #[kani::unwind(100)]
    #[kani::stub(core::str::validations::run_utf8_validation, utf8_ok)]
    pub(crate) fn c16_ni_debug_cred_2_3() {
        ni_debug_cred::<2, 3>();
    }

    #[kani::proof]
    #[kani::unwind(100)]
    #[kani::stub(core::str::validations::run_utf8_validation, utf8_ok)]
    pub(crate) fn c16_ni_serialize_key_1_1() {
        ni_serialize_key::<1, 1>();
    }
    #[kani::proof]
    #[kani::unwind(100)]
    #[kani::stub(core::str::validations::run_utf8_validation, utf8_ok)]
    pub(crate) fn c16_ni_serialize_key_2_2() {
        ni_serialize_key::<2, 2>();
    }
    #[kani::proof]
    #[kani::unwind(100)]
    #[kani::stub(core::str::validations::run_utf8_validation, utf8_ok)]
    pub(crate) fn c16_ni_serialize_key_3_3() {
        ni_serialize_key::<3, 3>();
    }
    #[kani::proof]
    #[kani::unwind(100)]
    #[kani::stub(core::str::validations::run_utf8_validation, utf8_ok)]
    pub(crate) fn c16_ni_serialize_key_1_2() {
        ni_serialize_key::<1, 2>();
    }
    #[kani::proof]
    #[kani::unwind(100)]
    #[kani::stub(core::str::validations::run_utf8_validation, utf8_ok)]
    pub(crate) fn c16_ni_serialize_key_1_3() {
        ni_serialize_key::<1, 3>();
    }
    #[kani::proof]
    #[kani::unwind(100)]
    #[kani::stub(core::str::validations::run_utf8_validation, utf8_ok)]
    pub(crate) fn c16_ni_serialize_key_2_3() {
        ni_serialize_key::<2, 3>();
    }

    #[kani::proof]
    #[kani::unwind(100)]
    #[kani::stub(core::str::validations::run_utf8_validation, utf8_ok)]
    pub(crate) fn c16_no_leak_1() {
        no_leak::<1>();
    }
    #[kani::proof]
    #[kani::unwind(100)]
    #[kani::stub(core::str::validations::run_utf8_validation, utf8_ok)]
    pub(crate) fn c16_no_leak_2() {
        no_leak::<2>();
    }
    #[kani::proof]
    #[kani::unwind(100)]
    #[kani::stub(core::str::validations::run_utf8_validation, utf8_ok)]
    pub(crate) fn c16_no_leak_3() {
        no_leak::<3>();
    }
}
