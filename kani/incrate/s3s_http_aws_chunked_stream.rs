// in-crate Kani harnesses for http/aws_chunked_stream.rs (included under cfg(kani)): C08 (H1-H4), C09-P1.
//
// What finishes in CBMC (see /verif/kani/specs/C08.json): c08_h4_* (parse_chunk_meta vs the grammar; need the CBMC option
// --max-field-sensitivity-array-size >= 96), c08_u1_* / c08_u2_*_cutset (read_meta_bytes / read_data polled as futures
// on the STACK), c08_stub_memchr_table_is_exact.  What does not: everything that polls AwsChunkedStream::new(..) (the
// boxed generator) - c08_h1_*, c08_h2_*, c08_h3_*, c09_p1_*; those functions are kept because they are replayed
// NATIVELY with the real HMAC / parser / memchr by /verif/kani/gen/c08_native_replay.py (56 samples, all as expected).
// NOTE for stubs: `#[kani::stub(::memchr::memchr::memchr, ..)]` silently resolves to the sysroot's copy of the memchr
// crate and has no effect; the alias `use ::memchr::memchr as memchr_fn;` resolves to the crate s3s links.
#[allow(clippy::all, clippy::pedantic, dead_code, unused_imports, unused_variables)]
mod verif_kani_c08 {
    use super::*;
    use ::memchr::memchr as memchr_fn;

    // ------------------------------------------------------------------------------------------
    // stubs (each one is listed in specs/C08.json)
    // ------------------------------------------------------------------------------------------

    /// `memchr::memchr` (crate) and `core::slice::memchr::memchr` -> naive loop.
    pub fn naive_memchr(x: u8, text: &[u8]) -> Option<usize> {
        let mut i = 0;
        while i < text.len() {
            if text[i] == x {
                return Some(i);
            }
            i += 1;
        }
        None
    }

    /// `core::arch::x86_64::__cpuid_count` -> zeros.
    pub fn cpuid_zero(_leaf: u32, _sub: u32) -> core::arch::x86_64::CpuidResult {
        core::arch::x86_64::CpuidResult { eax: 0, ebx: 0, ecx: 0, edx: 0 }
    }

    // ------------------------------------------------------------------------------------------
    // H4: parse_chunk_meta  ==  chunk-size ";chunk-signature=" 64OCTET CRLF   (nothing before, nothing after)
    // ------------------------------------------------------------------------------------------

    fn hexval(c: u8) -> Option<u32> {
        match c {
            b'0'..=b'9' => Some((c - b'0') as u32),
            b'a'..=b'f' => Some((c - b'a') as u32 + 10),
            b'A'..=b'F' => Some((c - b'A') as u32 + 10),
            _ => None,
        }
    }

    const TAG: &[u8; 17] = b";chunk-signature=";

    /// Reference recogniser written from the aws-chunked grammar
    /// `chunk = 1*HEXDIG ";chunk-signature=" 64OCTET CRLF`; returns (size, offset of the signature).
    fn ref_meta(b: &[u8]) -> Option<(usize, usize)> {
        let n = b.len();
        let mut p = 0;
        let mut size: usize = 0;
        while p < n && hexval(b[p]).is_some() {
            size = size * 16 + hexval(b[p]).unwrap() as usize;
            p += 1;
        }
        if p == 0 || n != p + 17 + 64 + 2 {
            return None;
        }
        let mut k = 0;
        while k < 17 {
            if b[p + k] != TAG[k] {
                return None;
            }
            k += 1;
        }
        if b[n - 2] != b'\r' || b[n - 1] != b'\n' {
            return None;
        }
        Some((size, p + 17))
    }

    /// One header of length K + 83 + J:  K symbolic bytes (size field; any value, also ';', CR, LF), the tag
    /// ";chunk-signature=" with the byte at offset `perturb` (1..=16, or NOP) replaced by a symbolic byte, a 64-byte
    /// signature 'x'.. whose bytes 0, 31 and 63 are symbolic, two symbolic bytes in the place of CR LF, and J
    /// symbolic trailing junk bytes.  Accepted iff in the grammar; size as denoted; signature = the 64 bytes.
    /// The oracle is evaluated on the components (the buffer is their concatenation by construction).
    /// `exclude_finding` removes exactly the role of finding `chunk_size_trailing_junk`: a size field
    /// 1*HEXDIG 1*(junk without ';') in an otherwise exact header.
    fn meta_case<const K: usize, const J: usize>(perturb: usize, exclude_finding: bool) {
        let mut buf = [b'x'; 96];
        let n = K + 83 + J;
        let size_field: [u8; K] = kani::any();
        let mut k = 0;
        while k < K {
            buf[k] = size_field[k];
            k += 1;
        }
        k = 0;
        while k < 17 {
            buf[K + k] = TAG[k];
            k += 1;
        }
        let mut tag_ok = true;
        if perturb < 17 {
            let x: u8 = kani::any();
            buf[K + perturb] = x;
            tag_ok = x == TAG[perturb];
        }
        buf[K + 17] = kani::any();
        buf[K + 17 + 31] = kani::any();
        buf[K + 17 + 63] = kani::any();
        let cr: u8 = kani::any();
        let lf: u8 = kani::any();
        buf[K + 81] = cr;
        buf[K + 82] = lf;
        let junk: [u8; J] = kani::any();
        k = 0;
        while k < J {
            buf[K + 83 + k] = junk[k];
            k += 1;
        }
        // oracle from the grammar  1*HEXDIG ";chunk-signature=" 64OCTET CRLF
        let mut all_hex = K > 0;
        let mut value: usize = 0;
        let mut leading_hex = 0; // number of leading hex digits
        let mut has_semicolon = false;
        k = 0;
        while k < K {
            match hexval(size_field[k]) {
                Some(v) => {
                    value = value * 16 + v as usize;
                    if leading_hex == k {
                        leading_hex = k + 1;
                    }
                }
                None => all_hex = false,
            }
            if size_field[k] == b';' {
                has_semicolon = true;
            }
            k += 1;
        }
        let rest_exact = tag_ok && cr == b'\r' && lf == b'\n' && J == 0;
        let want = all_hex && rest_exact;
        if exclude_finding {
            kani::assume(!(rest_exact && !all_hex && leading_hex >= 1 && !has_semicolon));
        }
        let b = &buf[..n];
        match parse_chunk_meta(b) {
            Ok((rest, m)) => {
                assert!(want, "parse_chunk_meta accepts a header outside the grammar");
                assert!(rest.is_empty());
                assert!(m.size == value);
                assert!(m.signature.len() == 64);
                assert!(m.signature.as_ptr() == b[K + 17..].as_ptr());
            }
            Err(e) => {
                assert!(!want, "parse_chunk_meta refuses a header of the grammar");
                core::mem::forget(e);
            }
        }
    }

    const NOP: usize = 99;

    macro_rules! meta_harness {
        ($name:ident, $body:block) => {
            #[kani::proof]
            #[kani::unwind(24)] // is_a <= K+2 bytes x 23 (memchr over the 22 hex digits); tag compare 17; the scans over the
                                // buffer stop at concrete bytes (needs --max-field-sensitivity-array-size >= 96)
            #[kani::stub(memchr_fn, naive_memchr)]
            #[kani::stub(core::arch::x86_64::__cpuid_count, cpuid_zero)]
            pub fn $name() {
                $body;
                kani::cover!(true);
            }
        };
    }
    // fn c08_h4_meta_k0()
    meta_harness!(c08_h4_meta_k0, {
        meta_case::<0, 0>(NOP, true);
    });
    // fn c08_h4_meta_k1()
    meta_harness!(c08_h4_meta_k1, {
        meta_case::<1, 0>(NOP, true);
    });
    // fn c08_h4_meta_k2()
    meta_harness!(c08_h4_meta_k2, {
        meta_case::<2, 0>(NOP, true);
    });
    // fn c08_h4_meta_k1_junk1()
    meta_harness!(c08_h4_meta_k1_junk1, {
        meta_case::<1, 1>(NOP, true);
    });
    // fn c08_h4_meta_k1_tag8()
    meta_harness!(c08_h4_meta_k1_tag8, {
        meta_case::<1, 0>(8, true);
    });
    /// FINDING chunk_size_trailing_junk: e.g. "1x;chunk-signature=<64>\r\n" is accepted with size 1: nom's hex_u32
    /// stops at the first non-hex byte and parse_chunk_meta drops the rest of the size field (`let (_, size) = ..`).
    // fn c08_h4_meta_finding_chunk_size_trailing_junk()
    meta_harness!(c08_h4_meta_finding_chunk_size_trailing_junk, {
        meta_case::<2, 0>(NOP, false);
    });
    // ---- generated by /verif/kani/gen/c08_bodies.py: genuine SigV4 chunk signatures (secret key "k", 20130524T000000Z, us-east-1/s3) ----
    const A0: &str = "4f232c4386841ef735655705268965c44a0e4690baa4adea153f7db9fa80a0a9";
    const A1: &str = "619dbd534323a5287a4623e6e2dcb7ad23489802991a4f282702bc30deef20db";
    const A2: &str = "c80238d716b8cc73a3ed8005a554c5bd83379663909247f84694b7fb6070cf3d";
    const A2C: &str = "c6548e0c5f7602330f63bf5a736fb83e2cbd3ce342a25f78c3d58ac0e080f60f";
    const A3C: &str = "959a4239cf034c1d08d0963cb9437c2f9055a9602efe80bcc04fc41a263e9ac4";
    const C0: &str = "fa2fc09cbd5e0ec23075c8ace4cbef84250376199042b975ed33813768c097b4";
    const C1: &str = "638366a9735efaaa97fa26d4f303f4081bb5c61ec4b6224233e32099a71b688e";
    const C2: &str = "ad6f8d88205c2ac0c3499885753bb034d6a1ef838d82d88f17a8e1a06e482307";
    const R1: &str = "83723d31874326f55d83d87bacf9277b53b0a9f1b913c42a8aab4907cefb176f";
    const R2: &str = "cf340570db5ef845847706bf8790beff0701df5669575a239ab43efab18fb1e4";
    /// every genuine link (previous signature, chunk data, chunk signature) that occurs in the skeletons
    static LINKS: [(&str, &[u8], &str); 6] = [
        (A0, b"ab", A1),
        (A1, b"", A2),
        (A1, b"c", A2C),
        (A2C, b"", A3C),
        (C0, b"ab", C1),
        (C1, b"", C2),
    ];
    /// a skeleton: the encoded body, the positions of its LF bytes, the honest declared decoded length, and the
    /// reference outcome for that declared length (ok, delivered bytes) computed by /verif/kani/gen/c08_bodies.py::ref_decode
    struct Skel { body: &'static [u8], lfs: &'static [usize], declared: usize, ok: bool, delivered: &'static [u8] }
    static V_OK: Skel = Skel { body: b"2;chunk-signature=619dbd534323a5287a4623e6e2dcb7ad23489802991a4f282702bc30deef20db\r\nab\r\n0;chunk-signature=c80238d716b8cc73a3ed8005a554c5bd83379663909247f84694b7fb6070cf3d\r\n\r\n", lfs: &[83, 87, 171, 173], declared: 2, ok: true, delivered: b"ab" };
    static V_DATA0: Skel = Skel { body: b"2;chunk-signature=619dbd534323a5287a4623e6e2dcb7ad23489802991a4f282702bc30deef20db\r\nxb\r\n0;chunk-signature=c80238d716b8cc73a3ed8005a554c5bd83379663909247f84694b7fb6070cf3d\r\n\r\n", lfs: &[83, 87, 171, 173], declared: 2, ok: false, delivered: b"" };
    static V_DATA1: Skel = Skel { body: b"2;chunk-signature=619dbd534323a5287a4623e6e2dcb7ad23489802991a4f282702bc30deef20db\r\nax\r\n0;chunk-signature=c80238d716b8cc73a3ed8005a554c5bd83379663909247f84694b7fb6070cf3d\r\n\r\n", lfs: &[83, 87, 171, 173], declared: 2, ok: false, delivered: b"" };
    static V_SIG: Skel = Skel { body: b"2;chunk-signature=119dbd534323a5287a4623e6e2dcb7ad23489802991a4f282702bc30deef20db\r\nab\r\n0;chunk-signature=c80238d716b8cc73a3ed8005a554c5bd83379663909247f84694b7fb6070cf3d\r\n\r\n", lfs: &[83, 87, 171, 173], declared: 2, ok: false, delivered: b"" };
    static V_SHRINK: Skel = Skel { body: b"1;chunk-signature=619dbd534323a5287a4623e6e2dcb7ad23489802991a4f282702bc30deef20db\r\na\r\n0;chunk-signature=c80238d716b8cc73a3ed8005a554c5bd83379663909247f84694b7fb6070cf3d\r\n\r\n", lfs: &[83, 86, 170, 172], declared: 1, ok: false, delivered: b"" };
    static V_GROW: Skel = Skel { body: b"3;chunk-signature=619dbd534323a5287a4623e6e2dcb7ad23489802991a4f282702bc30deef20db\r\nabc\r\n0;chunk-signature=c80238d716b8cc73a3ed8005a554c5bd83379663909247f84694b7fb6070cf3d\r\n\r\n", lfs: &[83, 88, 172, 174], declared: 3, ok: false, delivered: b"" };
    static V_SIZELIE: Skel = Skel { body: b"1;chunk-signature=619dbd534323a5287a4623e6e2dcb7ad23489802991a4f282702bc30deef20db\r\nab\r\n0;chunk-signature=c80238d716b8cc73a3ed8005a554c5bd83379663909247f84694b7fb6070cf3d\r\n\r\n", lfs: &[83, 87, 171, 173], declared: 2, ok: false, delivered: b"" };
    static V_RESIGN: Skel = Skel { body: b"2;chunk-signature=83723d31874326f55d83d87bacf9277b53b0a9f1b913c42a8aab4907cefb176f\r\nab\r\n0;chunk-signature=cf340570db5ef845847706bf8790beff0701df5669575a239ab43efab18fb1e4\r\n\r\n", lfs: &[83, 87, 171, 173], declared: 2, ok: false, delivered: b"" };
    static V_SPLICE: Skel = Skel { body: b"2;chunk-signature=638366a9735efaaa97fa26d4f303f4081bb5c61ec4b6224233e32099a71b688e\r\nab\r\n0;chunk-signature=ad6f8d88205c2ac0c3499885753bb034d6a1ef838d82d88f17a8e1a06e482307\r\n\r\n", lfs: &[83, 87, 171, 173], declared: 2, ok: false, delivered: b"" };
    static W_OK: Skel = Skel { body: b"2;chunk-signature=619dbd534323a5287a4623e6e2dcb7ad23489802991a4f282702bc30deef20db\r\nab\r\n1;chunk-signature=c6548e0c5f7602330f63bf5a736fb83e2cbd3ce342a25f78c3d58ac0e080f60f\r\nc\r\n0;chunk-signature=959a4239cf034c1d08d0963cb9437c2f9055a9602efe80bcc04fc41a263e9ac4\r\n\r\n", lfs: &[83, 87, 171, 174, 258, 260], declared: 3, ok: true, delivered: b"abc" };
    static W_SWAP: Skel = Skel { body: b"1;chunk-signature=c6548e0c5f7602330f63bf5a736fb83e2cbd3ce342a25f78c3d58ac0e080f60f\r\nc\r\n2;chunk-signature=619dbd534323a5287a4623e6e2dcb7ad23489802991a4f282702bc30deef20db\r\nab\r\n0;chunk-signature=959a4239cf034c1d08d0963cb9437c2f9055a9602efe80bcc04fc41a263e9ac4\r\n\r\n", lfs: &[83, 86, 170, 174, 258, 260], declared: 3, ok: false, delivered: b"" };
    static W_DUP: Skel = Skel { body: b"2;chunk-signature=619dbd534323a5287a4623e6e2dcb7ad23489802991a4f282702bc30deef20db\r\nab\r\n2;chunk-signature=619dbd534323a5287a4623e6e2dcb7ad23489802991a4f282702bc30deef20db\r\nab\r\n1;chunk-signature=c6548e0c5f7602330f63bf5a736fb83e2cbd3ce342a25f78c3d58ac0e080f60f\r\nc\r\n0;chunk-signature=959a4239cf034c1d08d0963cb9437c2f9055a9602efe80bcc04fc41a263e9ac4\r\n\r\n", lfs: &[83, 87, 171, 175, 259, 262, 346, 348], declared: 5, ok: false, delivered: b"ab" };
    static W_DROP: Skel = Skel { body: b"1;chunk-signature=c6548e0c5f7602330f63bf5a736fb83e2cbd3ce342a25f78c3d58ac0e080f60f\r\nc\r\n0;chunk-signature=959a4239cf034c1d08d0963cb9437c2f9055a9602efe80bcc04fc41a263e9ac4\r\n\r\n", lfs: &[83, 86, 170, 172], declared: 1, ok: false, delivered: b"" };
    static W_SKIP: Skel = Skel { body: b"2;chunk-signature=619dbd534323a5287a4623e6e2dcb7ad23489802991a4f282702bc30deef20db\r\nab\r\n0;chunk-signature=959a4239cf034c1d08d0963cb9437c2f9055a9602efe80bcc04fc41a263e9ac4\r\n\r\n", lfs: &[83, 87, 171, 173], declared: 2, ok: false, delivered: b"ab" };
    static W_FOREIGN: Skel = Skel { body: b"2;chunk-signature=619dbd534323a5287a4623e6e2dcb7ad23489802991a4f282702bc30deef20db\r\nab\r\n2;chunk-signature=638366a9735efaaa97fa26d4f303f4081bb5c61ec4b6224233e32099a71b688e\r\nab\r\n0;chunk-signature=959a4239cf034c1d08d0963cb9437c2f9055a9602efe80bcc04fc41a263e9ac4\r\n\r\n", lfs: &[83, 87, 171, 175, 259, 261], declared: 4, ok: false, delivered: b"ab" };

    // ------------------------------------------------------------------------------------------
    // H1/H2/H3/P1: the compiled stream  AwsChunkedStream::new(..)  driven by a minimal executor.
    //
    // The generator's state lives on the heap (Box<dyn Future>), which CBMC's symbolic execution cannot constant-fold:
    // every loop is unwound to the global bound even on concrete inputs (measured: one-frame concrete smoke test with
    // naive memchr and unwind 180 did not leave symex in 800 s).  Therefore the global unwind bound is 6 (>= frames+1,
    // chunks+1) and every loop over BYTES is replaced: memchr by an exact table look-up for slices of the skeleton,
    // parse_chunk_meta (verified separately by the c08_h4_* harnesses) by a straight-line recogniser of the same
    // grammar for one-digit sizes, check_signature by the chain model, the poll loop by an unrolled macro, the
    // reference decoder by its pre-computed result (Skel.ok / Skel.delivered; tied to the in-Rust reference decoder
    // by harness c08_ref_outcomes).
    // ------------------------------------------------------------------------------------------

    /// exact `memchr(b'\n', text)` for `text` = a slice of `skel.body` (position table instead of a byte loop);
    /// asserts its own precondition.
    fn memchr_in_skeleton(skel: &'static Skel, x: u8, text: &[u8]) -> Option<usize> {
        if text.is_empty() {
            return None;
        }
        let base = skel.body.as_ptr() as usize;
        let a = text.as_ptr() as usize;
        assert!(x == b'\n', "memchr stub: only LF is searched");
        assert!(a >= base && (a - base) + text.len() <= skel.body.len(), "memchr stub: not a slice of the skeleton");
        let off = a - base;
        let mut ans = None;
        macro_rules! lf {
            ($k:expr) => {
                if ans.is_none() && $k < skel.lfs.len() {
                    let p = skel.lfs[$k];
                    if p >= off && p - off < text.len() {
                        ans = Some(p - off);
                    }
                }
            };
        }
        lf!(0);
        lf!(1);
        lf!(2);
        lf!(3);
        lf!(4);
        lf!(5);
        lf!(6);
        lf!(7);
        assert!(skel.lfs.len() <= 8);
        ans
    }

    /// Stub for `parse_chunk_meta` inside the stream harnesses: straight-line recogniser of
    /// `1HEXDIG ";chunk-signature=" 64OCTET CRLF` (the grammar of c08_h4_* restricted to one-digit sizes; no
    /// skeleton has a longer size field).
    fn model_parse_chunk_meta(input: &[u8]) -> nom::IResult<&[u8], ChunkMeta<'_>> {
        let b = input;
        let good = b.len() == 84
            && hexval(b[0]).is_some()
            && b[1] == TAG[0]
            && b[2] == TAG[1]
            && b[3] == TAG[2]
            && b[4] == TAG[3]
            && b[5] == TAG[4]
            && b[6] == TAG[5]
            && b[7] == TAG[6]
            && b[8] == TAG[7]
            && b[9] == TAG[8]
            && b[10] == TAG[9]
            && b[11] == TAG[10]
            && b[12] == TAG[11]
            && b[13] == TAG[12]
            && b[14] == TAG[13]
            && b[15] == TAG[14]
            && b[16] == TAG[15]
            && b[17] == TAG[16]
            && b[82] == b'\r'
            && b[83] == b'\n';
        if good {
            let size = hexval(b[0]).unwrap() as usize;
            Ok((&b[84..], ChunkMeta { size, signature: &b[18..82] }))
        } else {
            Err(nom::Err::Error(nom::error::Error::new(input, nom::error::ErrorKind::Tag)))
        }
    }

    /// Stub for `check_signature` (SHA-256/HMAC do not fit into CBMC): the *chain model*.  A chunk signature is
    /// valid iff (previous signature, chunk data, presented signature) is one of the genuine links of `LINKS`
    /// (computed with the real SigV4 chunk algorithm by /verif/kani/gen/c08_bodies.py); signatures are identified by their bytes 0, 1
    /// and 63 and length 64 (pairwise distinct over all signatures in the skeletons, checked by the generator), data
    /// by its total length and bytes.  The verdict depends on the previous signature (order, seed), the size and the
    /// content, and equals the real function's verdict on every skeleton; natively (playback) the real HMAC runs.
    fn model_check_signature(ctx: &SignatureCtx, expected_signature: &[u8], chunk_data: &[Bytes]) -> Option<Box<str>> {
        let mut total: usize = 0;
        let mut d = [0u8; 4];
        let mut i = 0;
        while i < chunk_data.len() {
            let piece: &[u8] = chunk_data[i].as_ref();
            let mut j = 0;
            while j < piece.len() {
                if total < 4 {
                    d[total] = piece[j];
                }
                total += 1;
                j += 1;
            }
            i += 1;
        }
        let prev = ctx.prev_signature.as_bytes();
        if prev.len() != 64 || expected_signature.len() != 64 {
            return None;
        }
        let mut ans: Option<Box<str>> = None;
        macro_rules! link {
            ($l:expr) => {
                if ans.is_none() {
                    let (p, data, s) = LINKS[$l];
                    let (p, s) = (p.as_bytes(), s.as_bytes());
                    let same = prev[0] == p[0]
                        && prev[1] == p[1]
                        && prev[63] == p[63]
                        && expected_signature[0] == s[0]
                        && expected_signature[1] == s[1]
                        && expected_signature[63] == s[63]
                        && total == data.len()
                        && (data.len() < 1 || d[0] == data[0])
                        && (data.len() < 2 || d[1] == data[1])
                        && (data.len() < 3 || d[2] == data[2]);
                    if same {
                        ans = Some(Box::from(LINKS[$l].2));
                    }
                }
            };
        }
        link!(0);
        link!(1);
        link!(2);
        link!(3);
        link!(4);
        link!(5);
        ans
    }

    /// The transport: frames are the slices body[cut[i]..cut[i+1]] of ONE static skeleton (no heap, nothing to
    /// drop); before each frame (and before the end) it may answer Pending once.
    struct Src {
        body: &'static [u8],
        cut: [usize; 4],
        nframes: usize,
        pend: [bool; 4],
        i: usize,
    }

    impl Stream for Src {
        type Item = Result<Bytes, StdError>;
        fn poll_next(mut self: Pin<&mut Self>, _cx: &mut Context<'_>) -> Poll<Option<Self::Item>> {
            let this = &mut *self;
            let i = this.i;
            if i < 4 && this.pend[i] {
                this.pend[i] = false;
                return Poll::Pending;
            }
            if i < this.nframes {
                this.i = i + 1;
                let frame: &'static [u8] = &this.body[this.cut[i]..this.cut[i + 1]];
                Poll::Ready(Some(Ok(Bytes::from_static(frame))))
            } else {
                Poll::Ready(None)
            }
        }
    }

    /// what the backend observes
    struct Outcome {
        /// the stream ended within the poll budget
        ended: bool,
        /// ended with Ok (None) / with an error item
        ok: bool,
        /// delivered bytes
        n: usize,
        out: [u8; 8],
        /// `exact_remaining_length()` before the first poll
        declared_seen: usize,
    }

    /// minimal executor: no-op waker, poll loop unrolled `polls` (<= 12) times
    fn run(src: Src, declared: usize, polls: usize) -> Outcome {
        let date = AmzDate::parse("20130524T000000Z").unwrap();
        let mut s = AwsChunkedStream::new(src, A0.into(), date, "us-east-1".into(), "s3".into(), "k".into(), declared);
        let mut o = Outcome { ended: false, ok: false, n: 0, out: [0; 8], declared_seen: s.exact_remaining_length() };
        let mut cx = Context::from_waker(std::task::Waker::noop());
        macro_rules! poll_once {
            ($k:expr) => {
                if $k < polls && !o.ended {
                    match Pin::new(&mut s).poll_next(&mut cx) {
                        Poll::Pending => {}
                        Poll::Ready(None) => {
                            o.ended = true;
                            o.ok = true;
                        }
                        Poll::Ready(Some(Err(e))) => {
                            o.ended = true;
                            o.ok = false;
                            core::mem::forget(e);
                        }
                        Poll::Ready(Some(Ok(b))) => {
                            let piece: &[u8] = b.as_ref();
                            let mut j = 0;
                            while j < piece.len() {
                                if o.n < 8 {
                                    o.out[o.n] = piece[j];
                                }
                                o.n += 1;
                                j += 1;
                            }
                            core::mem::forget(b);
                        }
                    }
                }
            };
        }
        poll_once!(0);
        poll_once!(1);
        poll_once!(2);
        poll_once!(3);
        poll_once!(4);
        poll_once!(5);
        poll_once!(6);
        poll_once!(7);
        poll_once!(8);
        poll_once!(9);
        poll_once!(10);
        poll_once!(11);
        core::mem::forget(s);
        o
    }

    fn any_cuts(len: usize) -> [usize; 4] {
        let c1: usize = kani::any();
        let c2: usize = kani::any();
        kani::assume(c1 <= c2 && c2 <= len);
        [0, c1, c2, len]
    }

    /// The stream's outcome on the skeleton, cut into 3 frames at arbitrary positions (empty frames included) and
    /// with an arbitrary Pending schedule if `pending`, is the reference outcome of the whole body: delivered
    /// bytes = the data of the chunks before the first chunk that does not verify, error at that chunk, Ok only after
    /// the verified zero-length chunk at the end of the input; the declared length is what the backend sees.
    fn check_against_reference(skel: &'static Skel, pending: bool, polls: usize) {
        let cut = any_cuts(skel.body.len());
        let pend: [bool; 4] = if pending { kani::any() } else { [false; 4] };
        let got = run(Src { body: skel.body, cut, nframes: 3, pend, i: 0 }, skel.declared, polls);
        assert!(got.declared_seen == skel.declared, "the backend does not see the declared decoded length");
        assert!(got.ended, "poll budget too small");
        assert!(got.n == skel.delivered.len(), "delivered byte count differs from the reference");
        let mut k = 0;
        while k < skel.delivered.len() {
            assert!(got.out[k] == skel.delivered[k], "delivered bytes differ from the reference");
            k += 1;
        }
        assert!(got.ok == skel.ok, "Ok/Err differs from the reference");
    }

    macro_rules! skeleton_harness {
        ($name:ident, $stub:ident, $skel:ident, $pending:expr, $polls:expr) => {
            fn $stub(x: u8, text: &[u8]) -> Option<usize> {
                memchr_in_skeleton(&$skel, x, text)
            }
            #[kani::proof]
            #[kani::unwind(6)]
            #[kani::stub(memchr_fn, $stub)]
            #[kani::stub(core::arch::x86_64::__cpuid_count, cpuid_zero)]
            #[kani::stub(check_signature, model_check_signature)]
            #[kani::stub(parse_chunk_meta, model_parse_chunk_meta)]
            pub fn $name() {
                check_against_reference(&$skel, $pending, $polls);
                kani::cover!(true);
            }
        };
    }

    // H1 (one data chunk + final chunk: valid / data altered / signature altered / resized / re-signed / spliced) and
    // H2 (two data chunks: valid / swapped / duplicated / dropped / skipped / foreign chunk), all partitions into 3
    // frames.  STATUS: do not fit (symex of the boxed generator), see specs/C08.json; replayed natively on samples.
    // fn c08_h1_valid()
    skeleton_harness!(c08_h1_valid, memchr_v_ok, V_OK, false, 6);
    // fn c08_h1_data0()
    skeleton_harness!(c08_h1_data0, memchr_v_data0, V_DATA0, false, 6);
    // fn c08_h1_data1()
    skeleton_harness!(c08_h1_data1, memchr_v_data1, V_DATA1, false, 6);
    // fn c08_h1_sig()
    skeleton_harness!(c08_h1_sig, memchr_v_sig, V_SIG, false, 6);
    // fn c08_h1_shrink()
    skeleton_harness!(c08_h1_shrink, memchr_v_shrink, V_SHRINK, false, 6);
    // fn c08_h1_grow()
    skeleton_harness!(c08_h1_grow, memchr_v_grow, V_GROW, false, 6);
    // fn c08_h1_sizelie()
    skeleton_harness!(c08_h1_sizelie, memchr_v_sizelie, V_SIZELIE, false, 6);
    // fn c08_h1_resign()
    skeleton_harness!(c08_h1_resign, memchr_v_resign, V_RESIGN, false, 6);
    // fn c08_h1_splice()
    skeleton_harness!(c08_h1_splice, memchr_v_splice, V_SPLICE, false, 6);
    // fn c08_h2_valid()
    skeleton_harness!(c08_h2_valid, memchr_w_ok, W_OK, false, 8);
    // fn c08_h2_swap()
    skeleton_harness!(c08_h2_swap, memchr_w_swap, W_SWAP, false, 8);
    // fn c08_h2_dup()
    skeleton_harness!(c08_h2_dup, memchr_w_dup, W_DUP, false, 8);
    // fn c08_h2_drop()
    skeleton_harness!(c08_h2_drop, memchr_w_drop, W_DROP, false, 8);
    // fn c08_h2_skip()
    skeleton_harness!(c08_h2_skip, memchr_w_skip, W_SKIP, false, 8);
    // fn c08_h2_foreign()
    skeleton_harness!(c08_h2_foreign, memchr_w_foreign, W_FOREIGN, false, 8);
    // C09-P1: the same with an arbitrary Pending schedule of the transport (readiness)
    // fn c09_p1_valid_pending()
    skeleton_harness!(c09_p1_valid_pending, memchr_v_ok_p, V_OK, true, 10);
    // fn c09_p1_dup_pending()
    skeleton_harness!(c09_p1_dup_pending, memchr_w_dup_p, W_DUP, true, 12);

    fn memchr_v_ok_b(x: u8, text: &[u8]) -> Option<usize> {
        memchr_in_skeleton(&V_OK, x, text)
    }

    // ------------------------------------------------------------------------------------------
    // H3: truncation and the declared decoded length.  The transport delivers V_OK.body[..t] in two frames
    // ([0..c1], [c1..t]) and ends.  Layout of V_OK: header1 0..84, data "ab" 84..86, CRLF 86..88, header2 (size 0)
    // 88..172, final CRLF 172..174.
    // ------------------------------------------------------------------------------------------

    /// oracle written from the property: Ok only for the complete upload (t = 174: the signed zero-length chunk was
    /// received) whose total equals the declared length; chunk data is delivered whole or not at all and not
    /// before all of it arrived; the complete, honestly declared upload succeeds.
    fn h3_check(t: usize, declared: usize, got: &Outcome) {
        assert!(got.declared_seen == declared, "the backend does not see the declared decoded length");
        assert!(got.ended, "poll budget too small");
        assert!(got.n == 0 || (got.n == 2 && got.out[0] == b'a' && got.out[1] == b'b'), "delivered bytes are not whole chunks");
        assert!(got.n == 0 || t >= 86, "chunk data delivered before it arrived");
        if got.ok {
            assert!(t == 174, "a truncated upload (no signed zero-length chunk received) ends Ok");
            assert!(got.n == declared, "the upload ends Ok although its total differs from the declared decoded length");
        }
        if t == 174 && declared == 2 {
            assert!(got.ok && got.n == 2, "the complete upload is refused");
        }
    }

    fn h3_run(t: usize, c1: usize, declared: usize) -> Outcome {
        run(Src { body: V_OK.body, cut: [0, c1, t, t], nframes: 2, pend: [false; 4], i: 0 }, declared, 6)
    }

    /// H3 main harness: every truncation point t, first cut c1 <= t, declared in 0..=3, EXCLUDING exactly the roles
    /// of the two findings: (a) the input ends before / inside a chunk header (t < 84 or 88 <= t < 172), (b) the
    /// complete upload with a declared length other than its total.
    /// STATUS: does not fit (symex of the boxed generator), see specs/C08.json; replayed natively on samples.
    #[kani::proof]
    #[kani::unwind(6)]
    #[kani::stub(memchr_fn, memchr_v_ok_b)]
    #[kani::stub(core::arch::x86_64::__cpuid_count, cpuid_zero)]
    #[kani::stub(check_signature, model_check_signature)]
    #[kani::stub(parse_chunk_meta, model_parse_chunk_meta)]
    pub fn c08_h3_truncation() {
        let t: usize = kani::any();
        let c1: usize = kani::any();
        let declared: usize = kani::any();
        kani::assume(t <= 174 && c1 <= t && declared <= 3);
        kani::assume(!(t < 84 || (t >= 88 && t < 172)));
        kani::assume(!(t == 174 && declared != 2));
        let got = h3_run(t, c1, declared);
        h3_check(t, declared, &got);
        kani::cover!(true);
    }

    /// FINDING truncated_upload_accepted: the transport ends before or inside a chunk header (also: at a chunk
    /// boundary, also: before the first byte): `read_meta_bytes` answers None, the generator `break`s and the body
    /// ends Ok - without the signed zero-length chunk, whatever was declared.
    #[kani::proof]
    #[kani::unwind(6)]
    #[kani::stub(memchr_fn, memchr_v_ok_b)]
    #[kani::stub(core::arch::x86_64::__cpuid_count, cpuid_zero)]
    #[kani::stub(check_signature, model_check_signature)]
    #[kani::stub(parse_chunk_meta, model_parse_chunk_meta)]
    pub fn c08_h3_finding_truncated_upload_accepted() {
        let t: usize = kani::any();
        let c1: usize = kani::any();
        let declared: usize = kani::any();
        kani::assume(t <= 174 && c1 <= t && declared <= 3);
        kani::assume(t < 84 || (t >= 88 && t < 172));
        let got = h3_run(t, c1, declared);
        h3_check(t, declared, &got);
        kani::cover!(true);
    }

    /// FINDING declared_length_not_enforced: the complete, correctly signed upload of 2 bytes ends Ok although the
    /// request declared 0, 1 or 3 decoded bytes (the backend is told the declared length, `remaining_length` only
    /// saturates).
    #[kani::proof]
    #[kani::unwind(6)]
    #[kani::stub(memchr_fn, memchr_v_ok_b)]
    #[kani::stub(core::arch::x86_64::__cpuid_count, cpuid_zero)]
    #[kani::stub(check_signature, model_check_signature)]
    #[kani::stub(parse_chunk_meta, model_parse_chunk_meta)]
    pub fn c08_h3_finding_declared_length_not_enforced() {
        let c1: usize = kani::any();
        let declared: usize = kani::any();
        kani::assume(c1 <= 174 && declared <= 3 && declared != 2);
        let got = h3_run(174, c1, declared);
        h3_check(174, declared, &got);
        kani::cover!(true);
    }

    // ------------------------------------------------------------------------------------------
    // Unit level (futures on the STACK, no Box): read_meta_bytes / read_data under arbitrary framing
    // ------------------------------------------------------------------------------------------

    /// end of the frame that contains byte `idx` of the body
    fn frame_end(cut: &[usize; 4], nframes: usize, idx: usize) -> usize {
        if nframes >= 1 && idx < cut[1] {
            cut[1]
        } else if nframes >= 2 && idx < cut[2] {
            cut[2]
        } else {
            cut[3]
        }
    }

    /// `read_meta_bytes` on V_OK cut into frames at arbitrary positions (`three`: cuts c1 <= c2, else one cut c1;
    /// `pending`: arbitrary Pending answers of the transport): it returns the rest of the frame that holds the first
    /// LF, and `buf` is the header line (length 84, sampled at 6 positions): the result does not depend on the
    /// framing nor on the readiness.
    fn read_meta_bytes_framing(three: bool, pending: bool) {
        let body = V_OK.body;
        let cut = if three {
            any_cuts(body.len())
        } else {
            let c1: usize = kani::any();
            kani::assume(c1 <= body.len());
            [0, c1, body.len(), body.len()]
        };
        let pend: [bool; 4] = if pending { kani::any() } else { [false; 4] };
        let mut src = Src { body, cut, nframes: 3, pend, i: 0 };
        let mut buf: Vec<u8> = Vec::new();
        let mut cx = Context::from_waker(std::task::Waker::noop());
        let mut res: Option<Option<Result<Bytes, StdError>>> = None;
        {
            let fut = AwsChunkedStream::read_meta_bytes(Pin::new(&mut src), Bytes::new(), &mut buf);
            let mut fut = core::pin::pin!(fut);
            macro_rules! poll_once {
                () => {
                    if res.is_none() {
                        if let Poll::Ready(r) = fut.as_mut().poll(&mut cx) {
                            res = Some(r);
                        }
                    }
                };
            }
            poll_once!();
            if pending {
                poll_once!();
                poll_once!();
                poll_once!();
                poll_once!();
            }
        }
        assert!(res.is_some(), "poll budget too small");
        match res.unwrap() {
            Some(Ok(rem)) => {
                assert!(buf.len() == 84);
                assert!(buf[0] == b'2' && buf[1] == b';' && buf[17] == b'=' && buf[18] == A1.as_bytes()[0]);
                assert!(buf[82] == b'\r' && buf[83] == b'\n');
                let end = frame_end(&cut, 3, 83);
                assert!(rem.len() == end - 84);
                assert!(rem.is_empty() || rem.as_ptr() == body[84..].as_ptr());
                core::mem::forget(rem);
            }
            other => {
                core::mem::forget(other);
                panic!("read_meta_bytes does not return the header line");
            }
        }
        core::mem::forget(buf);
    }

    /// 3 frames (two symbolic cuts) + Pending schedule.  STATUS: does not fit (780 s in symex at 6.3 GB, killed).
    #[kani::proof]
    #[kani::unwind(6)]
    #[kani::stub(memchr_fn, memchr_v_ok_b)]
    #[kani::stub(core::arch::x86_64::__cpuid_count, cpuid_zero)]
    pub fn c08_u1_read_meta_bytes_framing() {
        read_meta_bytes_framing(true, true);
        kani::cover!(true);
    }

    /// 2 frames (one symbolic cut), transport always ready.  STATUS: success in 217 s with --mem 12 (out of memory at 8 GB)
    #[kani::proof]
    #[kani::unwind(6)]
    #[kani::stub(memchr_fn, memchr_v_ok_b)]
    #[kani::stub(core::arch::x86_64::__cpuid_count, cpuid_zero)]
    pub fn c08_u1_read_meta_bytes_framing_2frames() {
        read_meta_bytes_framing(false, false);
        kani::cover!(true);
    }

    /// 3 frames (two symbolic cuts), transport always ready.  STATUS: SAT back end out of memory at 8 GB (26 M clauses)
    #[kani::proof]
    #[kani::unwind(6)]
    #[kani::stub(memchr_fn, memchr_v_ok_b)]
    #[kani::stub(core::arch::x86_64::__cpuid_count, cpuid_zero)]
    pub fn c08_u1_read_meta_bytes_framing_3frames() {
        read_meta_bytes_framing(true, false);
        kani::cover!(true);
    }

    /// 2 frames (one symbolic cut) + Pending schedule.  STATUS: not run
    #[kani::proof]
    #[kani::unwind(6)]
    #[kani::stub(memchr_fn, memchr_v_ok_b)]
    #[kani::stub(core::arch::x86_64::__cpuid_count, cpuid_zero)]
    pub fn c08_u1_read_meta_bytes_framing_2frames_pending() {
        read_meta_bytes_framing(false, true);
        kani::cover!(true);
    }

    /// `read_meta_bytes` when the transport ends after V_OK.body[..t], t <= 83 (before the LF of the first header),
    /// in two frames: it answers None - the same answer as for a transport that ends cleanly before a header - and
    /// the partial header stays in `buf`.  (The generator maps None to a successful end: finding
    /// truncated_upload_accepted, replayed natively.)
    #[kani::proof]
    #[kani::unwind(6)]
    #[kani::stub(memchr_fn, memchr_v_ok_b)]
    #[kani::stub(core::arch::x86_64::__cpuid_count, cpuid_zero)]
    pub fn c08_u1_read_meta_bytes_end_of_input() {
        let body = V_OK.body;
        let c1: usize = kani::any();
        let t: usize = kani::any();
        kani::assume(c1 <= t && t <= 83);
        let mut src = Src { body, cut: [0, c1, t, t], nframes: 2, pend: [false; 4], i: 0 };
        let mut buf: Vec<u8> = Vec::new();
        let mut cx = Context::from_waker(std::task::Waker::noop());
        let mut res: Option<Option<Result<Bytes, StdError>>> = None;
        {
            let fut = AwsChunkedStream::read_meta_bytes(Pin::new(&mut src), Bytes::new(), &mut buf);
            let mut fut = core::pin::pin!(fut);
            if let Poll::Ready(r) = fut.as_mut().poll(&mut cx) {
                res = Some(r);
            }
        }
        assert!(res.is_some(), "poll budget too small");
        let r = res.unwrap();
        assert!(r.is_none());
        assert!(buf.len() == t);
        core::mem::forget(r);
        core::mem::forget(buf);
        kani::cover!(true);
    }

    type ReadData = Option<Result<(Vec<Bytes>, Bytes), AwsChunkedStreamError>>;

    /// `read_data(size)` on body[..t]: the first c1 bytes are what was left over from the previous frame
    /// (`prev_bytes`), the transport then delivers [c1..c2], [c2..t] (with Pending answers per `pend`) and ends.
    /// None = still pending after 6 polls.
    fn read_data_run(body: &'static [u8], c1: usize, c2: usize, t: usize, size: usize, pend: [bool; 4]) -> Option<ReadData> {
        let mut src = Src { body, cut: [c1, c2, t, t], nframes: 2, pend, i: 0 };
        let mut cx = Context::from_waker(std::task::Waker::noop());
        let mut res: Option<ReadData> = None;
        {
            let fut = AwsChunkedStream::read_data(Pin::new(&mut src), Bytes::from_static(&body[..c1]), size);
            let mut fut = core::pin::pin!(fut);
            macro_rules! poll_once {
                () => {
                    if res.is_none() {
                        if let Poll::Ready(r) = fut.as_mut().poll(&mut cx) {
                            res = Some(r);
                        }
                    }
                };
            }
            poll_once!();
            poll_once!();
            poll_once!();
            poll_once!();
            poll_once!();
            poll_once!();
        }
        res
    }

    static D_OK: &[u8] = b"ab\r\n0;chu";
    static D_BAD_CR: &[u8] = b"abX\n0;chu";
    static D_BAD_LF: &[u8] = b"ab\rX0;chu";
    static D_FINAL: &[u8] = b"\r\n";

    fn any_split(t: usize) -> (usize, usize) {
        let c1: usize = kani::any();
        let c2: usize = kani::any();
        kani::assume(c1 <= c2 && c2 <= t);
        (c1, c2)
    }

    /// (The four harnesses below use SYMBOLIC cut positions and do NOT fit: c08_u2_read_data_final_chunk was killed
    /// after 270 s in symex at 5.6 GB, c08_u2_read_data_end_of_input after 420 s at 3.3 GB - the Vec<Bytes> lives on
    /// the heap and every Bytes clone/drop expands into all vtable implementations.  The *_cutset harnesses further
    /// down check the same on concrete cut positions and finish.)
    /// `read_data(2)` on "ab" CRLF "0;chu" under every framing (leftover + 2 frames, Pending schedule): the pieces
    /// concatenate to "ab", CRLF is consumed, the rest of the frame that holds the LF is handed back.
    #[kani::proof]
    #[kani::unwind(6)]
    pub fn c08_u2_read_data_framing() {
        let body = D_OK;
        let t = body.len();
        let (c1, c2) = any_split(t);
        let pend: [bool; 4] = kani::any();
        let res = read_data_run(body, c1, c2, t, 2, pend);
        assert!(res.is_some(), "poll budget too small");
        match res.unwrap() {
            Some(Ok((pieces, rem))) => {
                let mut n = 0;
                let mut out = [0u8; 4];
                let mut i = 0;
                while i < pieces.len() {
                    let piece: &[u8] = pieces[i].as_ref();
                    let mut j = 0;
                    while j < piece.len() {
                        if n < 4 {
                            out[n] = piece[j];
                        }
                        n += 1;
                        j += 1;
                    }
                    i += 1;
                }
                assert!(n == 2 && out[0] == b'a' && out[1] == b'b');
                // the frame (or leftover) that holds the LF (index 3)
                let end = if 3 < c1 { c1 } else if 3 < c2 { c2 } else { t };
                assert!(rem.len() == end - 4);
                assert!(rem.is_empty() || rem.as_ptr() == body[4..].as_ptr());
                core::mem::forget(pieces);
                core::mem::forget(rem);
            }
            other => {
                core::mem::forget(other);
                panic!("read_data does not return the chunk data");
            }
        }
        kani::cover!(true);
    }

    /// `read_data(0)` (final chunk) on CRLF under every framing: no data piece, CRLF consumed.
    #[kani::proof]
    #[kani::unwind(6)]
    pub fn c08_u2_read_data_final_chunk() {
        let body = D_FINAL;
        let (c1, c2) = any_split(2);
        let pend: [bool; 4] = kani::any();
        let res = read_data_run(body, c1, c2, 2, 0, pend);
        assert!(res.is_some(), "poll budget too small");
        match res.unwrap() {
            Some(Ok((pieces, rem))) => {
                let mut n = 0;
                let mut i = 0;
                while i < pieces.len() {
                    n += pieces[i].len();
                    i += 1;
                }
                assert!(n == 0);
                assert!(rem.is_empty());
                core::mem::forget(pieces);
                core::mem::forget(rem);
            }
            other => {
                core::mem::forget(other);
                panic!("read_data(0) does not accept CRLF");
            }
        }
        kani::cover!(true);
    }

    /// a chunk whose data is not followed by CRLF is a format error under every framing (the size was altered, or
    /// bytes were inserted / removed)
    #[kani::proof]
    #[kani::unwind(6)]
    pub fn c08_u2_read_data_bad_terminator() {
        let body = if kani::any() { D_BAD_CR } else { D_BAD_LF };
        let t = body.len();
        let (c1, c2) = any_split(t);
        let res = read_data_run(body, c1, c2, t, 2, [false; 4]);
        assert!(res.is_some(), "poll budget too small");
        let r = res.unwrap();
        assert!(matches!(r, Some(Err(AwsChunkedStreamError::FormatError))));
        core::mem::forget(r);
        kani::cover!(true);
    }

    /// the transport ends inside the chunk data or inside its CRLF (t <= 3 of "ab" CRLF): read_data answers None
    /// (the generator turns it into the Incomplete error) under every framing
    #[kani::proof]
    #[kani::unwind(6)]
    pub fn c08_u2_read_data_end_of_input() {
        let body = D_OK;
        let t: usize = kani::any();
        kani::assume(t <= 3);
        let (c1, c2) = any_split(t);
        let res = read_data_run(body, c1, c2, t, 2, [false; 4]);
        assert!(res.is_some(), "poll budget too small");
        let r = res.unwrap();
        assert!(r.is_none());
        core::mem::forget(r);
        kani::cover!(true);
    }

    // ---- the same unit-level checks on CONCRETE cut positions (STYLE rule 2: concrete lengths) ----

    /// read_meta_bytes on V_OK cut at the concrete positions (c1, c2), transport always ready
    fn read_meta_case(c1: usize, c2: usize) {
        let body = V_OK.body;
        let cut = [0, c1, c2, body.len()];
        let mut src = Src { body, cut, nframes: 3, pend: [false; 4], i: 0 };
        let mut buf: Vec<u8> = Vec::new();
        let mut cx = Context::from_waker(std::task::Waker::noop());
        let res;
        {
            let fut = AwsChunkedStream::read_meta_bytes(Pin::new(&mut src), Bytes::new(), &mut buf);
            let mut fut = core::pin::pin!(fut);
            res = fut.as_mut().poll(&mut cx);
        }
        match res {
            Poll::Ready(Some(Ok(rem))) => {
                assert!(buf.len() == 84);
                assert!(buf[0] == b'2' && buf[1] == b';' && buf[17] == b'=' && buf[18] == A1.as_bytes()[0]);
                assert!(buf[82] == b'\r' && buf[83] == b'\n');
                let end = frame_end(&cut, 3, 83);
                assert!(rem.len() == end - 84);
                assert!(rem.is_empty() || rem.as_ptr() == body[84..].as_ptr());
                core::mem::forget(rem);
            }
            other => {
                core::mem::forget(other);
                panic!("read_meta_bytes does not return the header line");
            }
        }
        core::mem::forget(buf);
    }

    /// 3 frames with the cuts between CR and LF and right behind the LF: [..83] [83..84] [84..] (two- and
    /// multi-pair versions of this harness ran out of memory (8 GB) in the SAT back end: 4 pairs = 302 k steps)
    #[kani::proof]
    #[kani::unwind(6)]
    #[kani::stub(memchr_fn, memchr_v_ok_b)]
    #[kani::stub(core::arch::x86_64::__cpuid_count, cpuid_zero)]
    pub fn c08_u1_read_meta_bytes_framing_cut_83_84() {
        read_meta_case(83, 84);
        kani::cover!(true);
    }

    /// 3 frames [..1] [1..83] [83..]: size digit alone, header without its LF, LF + rest
    #[kani::proof]
    #[kani::unwind(6)]
    #[kani::stub(memchr_fn, memchr_v_ok_b)]
    #[kani::stub(core::arch::x86_64::__cpuid_count, cpuid_zero)]
    pub fn c08_u1_read_meta_bytes_framing_cut_1_83() {
        read_meta_case(1, 83);
        kani::cover!(true);
    }

    /// read_data(2) on D_OK = "ab" CRLF "0;chu": leftover [..c1], frames [c1..c2], [c2..9], transport always ready
    fn read_data_case(c1: usize, c2: usize) {
        let body = D_OK;
        let res = read_data_run(body, c1, c2, body.len(), 2, [false; 4]);
        assert!(res.is_some(), "poll budget too small");
        match res.unwrap() {
            Some(Ok((pieces, rem))) => {
                let mut n = 0;
                let mut out = [0u8; 4];
                let mut i = 0;
                while i < pieces.len() {
                    let piece: &[u8] = pieces[i].as_ref();
                    let mut j = 0;
                    while j < piece.len() {
                        if n < 4 {
                            out[n] = piece[j];
                        }
                        n += 1;
                        j += 1;
                    }
                    i += 1;
                }
                assert!(n == 2 && out[0] == b'a' && out[1] == b'b');
                let end = if 3 < c1 { c1 } else if 3 < c2 { c2 } else { body.len() };
                assert!(rem.len() == end - 4);
                assert!(rem.is_empty() || rem.as_ptr() == body[4..].as_ptr());
                core::mem::forget(pieces);
                core::mem::forget(rem);
            }
            other => {
                core::mem::forget(other);
                panic!("read_data does not return the chunk data");
            }
        }
    }

    /// all 28 cut pairs c1 <= c2 over {0, 1, 2, 3, 4, 5, 9}
    #[kani::proof]
    #[kani::unwind(6)]
    pub fn c08_u2_read_data_framing_cutset() {
        read_data_case(0, 0);
        read_data_case(0, 1);
        read_data_case(0, 2);
        read_data_case(0, 3);
        read_data_case(0, 4);
        read_data_case(0, 5);
        read_data_case(0, 9);
        read_data_case(1, 1);
        read_data_case(1, 2);
        read_data_case(1, 3);
        read_data_case(1, 4);
        read_data_case(1, 5);
        read_data_case(1, 9);
        read_data_case(2, 2);
        read_data_case(2, 3);
        read_data_case(2, 4);
        read_data_case(2, 5);
        read_data_case(2, 9);
        read_data_case(3, 3);
        read_data_case(3, 4);
        read_data_case(3, 5);
        read_data_case(3, 9);
        read_data_case(4, 4);
        read_data_case(4, 5);
        read_data_case(4, 9);
        read_data_case(5, 5);
        read_data_case(5, 9);
        read_data_case(9, 9);
        kani::cover!(true);
    }

    /// read_data(size) on body[..t] (leftover [..c1], frames [c1..c2], [c2..t], then end), concrete positions;
    /// expect: 1 = FormatError, 2 = None (transport ended: the generator reports Incomplete), 3 = Ok without data
    fn read_data_expect(body: &'static [u8], c1: usize, c2: usize, t: usize, size: usize, expect: u8) {
        let res = read_data_run(body, c1, c2, t, size, [false; 4]);
        assert!(res.is_some(), "poll budget too small");
        let r = res.unwrap();
        match &r {
            Some(Err(AwsChunkedStreamError::FormatError)) => assert!(expect == 1),
            None => assert!(expect == 2),
            Some(Ok((pieces, rem))) => {
                assert!(expect == 3);
                assert!(pieces.is_empty() && rem.is_empty());
            }
            _ => panic!("unexpected answer of read_data"),
        }
        core::mem::forget(r);
    }

    /// chunk data that is not followed by CRLF ("abX\n..", "ab\rX..") is a FormatError for 4 cut pairs each
    #[kani::proof]
    #[kani::unwind(6)]
    pub fn c08_u2_read_data_bad_terminator_cutset() {
        read_data_expect(D_BAD_CR, 0, 0, 9, 2, 1);
        read_data_expect(D_BAD_LF, 0, 0, 9, 2, 1);
        read_data_expect(D_BAD_CR, 2, 3, 9, 2, 1);
        read_data_expect(D_BAD_LF, 2, 3, 9, 2, 1);
        read_data_expect(D_BAD_CR, 3, 4, 9, 2, 1);
        read_data_expect(D_BAD_LF, 3, 4, 9, 2, 1);
        read_data_expect(D_BAD_CR, 1, 3, 9, 2, 1);
        read_data_expect(D_BAD_LF, 1, 3, 9, 2, 1);
        kani::cover!(true);
    }

    /// the transport ends inside the data / inside its CRLF (t = 0..3 of "ab" CRLF): None for 8 framings;
    /// read_data(0) on CRLF (final chunk): Ok, no data, for all 6 framings of the 2 bytes
    #[kani::proof]
    #[kani::unwind(6)]
    pub fn c08_u2_read_data_end_and_final_cutset() {
        read_data_expect(D_OK, 0, 0, 0, 2, 2);
        read_data_expect(D_OK, 0, 0, 1, 2, 2);
        read_data_expect(D_OK, 0, 1, 1, 2, 2);
        read_data_expect(D_OK, 0, 1, 2, 2, 2);
        read_data_expect(D_OK, 1, 2, 2, 2, 2);
        read_data_expect(D_OK, 0, 2, 3, 2, 2);
        read_data_expect(D_OK, 2, 3, 3, 2, 2);
        read_data_expect(D_OK, 1, 1, 3, 2, 2);
        read_data_expect(D_FINAL, 0, 0, 2, 0, 3);
        read_data_expect(D_FINAL, 0, 1, 2, 0, 3);
        read_data_expect(D_FINAL, 1, 1, 2, 0, 3);
        read_data_expect(D_FINAL, 1, 2, 2, 0, 3);
        read_data_expect(D_FINAL, 0, 2, 2, 0, 3);
        read_data_expect(D_FINAL, 2, 2, 2, 0, 3);
        kani::cover!(true);
    }

    /// the memchr stub of the stream / unit harnesses is exact: for every slice V_OK.body[a..b] the position table
    /// gives the same answer as the byte loop
    #[kani::proof]
    #[kani::unwind(180)]
    pub fn c08_stub_memchr_table_is_exact() {
        let a: usize = kani::any();
        let b: usize = kani::any();
        kani::assume(a <= b && b <= V_OK.body.len());
        let text = &V_OK.body[a..b];
        let want = naive_memchr(b'\n', text);
        let got = memchr_in_skeleton(&V_OK, b'\n', text);
        assert!(want.is_some() == got.is_some());
        if let (Some(x), Some(y)) = (want, got) {
            assert!(x == y);
        }
        kani::cover!(true);
    }

    // ------------------------------------------------------------------------------------------
    // S1: the comparison inside check_signature.  The HMAC chain is replaced by a fixed 64-digit value (stubs below), the presented
    // signature is 64 (63, 65) arbitrary bytes: check_signature answers Some exactly when EVERY byte equals the computed
    // signature, and the signature it hands on as the next `prev_signature` is the computed one.
    // ------------------------------------------------------------------------------------------
    const FIXED_SIG: &[u8; 64] = b"4f232c4386841ef735655705268965c44a0e4690baa4adea153f7db9fa80a0a9";

    pub fn stub_chunk_sts(_d: &AmzDate, _r: &str, _s: &str, _p: &str, _c: &[Bytes]) -> String {
        String::new()
    }

    pub fn stub_calc_sig(_sts: &str, _k: &crate::auth::SecretKey, _d: &AmzDate, _r: &str, _s: &str) -> String {
        String::from("4f232c4386841ef735655705268965c44a0e4690baa4adea153f7db9fa80a0a9")
    }

    fn sig_ctx() -> SignatureCtx {
        SignatureCtx {
            amz_date: AmzDate::parse("20130524T000000Z").unwrap(),
            region: "us-east-1".into(),
            service: "s3".into(),
            secret_key: crate::auth::SecretKey::from("k"),
            prev_signature: "p".into(),
        }
    }

    fn sig_compare<const N: usize>() -> bool {
        let ctx = sig_ctx();
        let presented: [u8; N] = kani::any();
        let r = check_signature(&ctx, &presented, &[]);
        let mut same = N == 64;
        let mut i = 0;
        while i < N && i < 64 {
            if presented[i] != FIXED_SIG[i] {
                same = false;
            }
            i += 1;
        }
        assert!(r.is_some() == same, "check_signature accepts exactly the computed signature");
        if let Some(next) = &r {
            let b = next.as_bytes();
            let mut j = 0;
            let mut eq = b.len() == 64;
            while eq && j < 64 {
                if b[j] != FIXED_SIG[j] {
                    eq = false;
                }
                j += 1;
            }
            assert!(eq, "the signature handed on is the computed one");
        }
        let accepted = r.is_some();
        core::mem::forget(r);
        core::mem::forget(ctx);
        accepted
    }

    #[kani::proof]
    #[kani::unwind(67)]
    #[kani::stub(crate::sig_v4::create_chunk_string_to_sign, stub_chunk_sts)]
    #[kani::stub(crate::sig_v4::calculate_signature, stub_calc_sig)]
    fn c08_s1_sig_compare_64() {
        let accepted = sig_compare::<64>();
        kani::cover!(accepted);
        kani::cover!(!accepted);
    }

    #[kani::proof]
    #[kani::unwind(67)]
    #[kani::stub(crate::sig_v4::create_chunk_string_to_sign, stub_chunk_sts)]
    #[kani::stub(crate::sig_v4::calculate_signature, stub_calc_sig)]
    fn c08_s1_sig_compare_63() {
        let accepted = sig_compare::<63>();
        kani::cover!(!accepted);
    }

    #[kani::proof]
    #[kani::unwind(67)]
    #[kani::stub(crate::sig_v4::create_chunk_string_to_sign, stub_chunk_sts)]
    #[kani::stub(crate::sig_v4::calculate_signature, stub_calc_sig)]
    fn c08_s1_sig_compare_65() {
        let accepted = sig_compare::<65>();
        kani::cover!(!accepted);
    }
}
