// in-crate Kani harnesses included into the real crate under cfg(kani) (see MANIFEST.hooks)
// C05 (d): AmzDate::parse — the private fields are visible here.
mod verif_kani_amz_date {
    use super::*;

    fn utf8_ok(_v: &[u8]) -> Result<(), core::str::Utf8Error> {
        Ok(())
    }

    /// All 16-byte 7-bit inputs: accepted iff shape dddddddd'T'dddddd'Z' (reference written from the format), and
    /// then every field equals the decimal value of its digits as read.
    #[kani::proof]
    #[kani::unwind(18)]
    #[kani::stub(core::str::validations::run_utf8_validation, utf8_ok)]
    fn c05_amzdate_parse_fields() {
        let b: [u8; 16] = kani::any();
        let mut shape = true;
        let mut k = 0;
        while k < 16 {
            kani::assume(b[k] < 128);
            let ok = match k {
                8 => b[k] == b'T',
                15 => b[k] == b'Z',
                _ => b[k] >= b'0' && b[k] <= b'9',
            };
            shape = shape && ok;
            k += 1;
        }
        let v = |i: usize| (b[i] as u32).wrapping_sub(b'0' as u32);
        match AmzDate::parse(core::str::from_utf8(&b).unwrap()) {
            Ok(d) => {
                assert!(shape);
                assert!(d.year as u32 == v(0) * 1000 + v(1) * 100 + v(2) * 10 + v(3));
                assert!(d.month as u32 == v(4) * 10 + v(5));
                assert!(d.day as u32 == v(6) * 10 + v(7));
                assert!(d.hour as u32 == v(9) * 10 + v(10));
                assert!(d.minute as u32 == v(11) * 10 + v(12));
                assert!(d.second as u32 == v(13) * 10 + v(14));
            }
            Err(_) => assert!(!shape),
        }
        kani::cover!(shape);
        kani::cover!(!shape);
    }
}
