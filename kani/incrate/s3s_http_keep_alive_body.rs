// in-crate Kani harnesses for http/keep_alive_body.rs (included under cfg(kani)).
// `Interval` replaces tokio::time::Interval (tokio's timer needs a runtime and makes kani-compiler ICE):
// every poll_tick returns an arbitrary Ready/Pending, i.e. the tick is a nondeterministic environment.
mod verif_kani {
    use std::task::{Context, Poll};
    use std::time::Duration;

    pub struct Interval;

    impl Interval {
        pub fn new(_d: Duration) -> Self {
            Interval
        }
        pub fn poll_tick(&mut self, _cx: &mut Context<'_>) -> Poll<()> {
            if kani::any() { Poll::Ready(()) } else { Poll::Pending }
        }
    }
}
