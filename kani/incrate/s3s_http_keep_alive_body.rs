// in-crate Kani harnesses for http/keep_alive_body.rs (included under cfg(kani)).
// `Interval` replaces tokio::time::Interval (tokio's timer needs a runtime and makes kani-compiler ICE):
// every poll_tick returns an arbitrary Ready/Pending, i.e. the tick is a nondeterministic environment.
// `last` only RECORDS the latest answer for the harnesses (0 = not polled since the harness reset it,
// 1 = Ready, 2 = Pending); it does not influence the answer.
mod verif_kani {
    use std::task::{Context, Poll};
    use std::time::Duration;

    pub struct Interval {
        pub last: u8,
    }

    impl Interval {
        pub fn new(_d: Duration) -> Self {
            Interval { last: 0 }
        }
        pub fn poll_tick(&mut self, _cx: &mut Context<'_>) -> Poll<()> {
            if kani::any() {
                self.last = 1;
                Poll::Ready(())
            } else {
                self.last = 2;
                Poll::Pending
            }
        }
    }
}

// C03 (keep-alive part): `KeepAliveBody::poll_frame` / `is_end_stream` as compiled, against every interleaving of
// "the backend future completes" and "the keep-alive tick fires" within the bound.
//
// Environment (all of it is part of the claim):
//  * backend future `Backend`: answers Pending k times (every k in 0..=3, wakes the waker each time), then
//    Ready(Ok(response)) or Ready(Err(LateError)) (both); it asserts that it is never polled again
//    after it has completed (contract of `Future`);
//  * the Ok response: status 200, body = ONE static data frame b"<X/>" (`Body::from(Bytes::from_static(..))`),
//    headers = an EMPTY HeaderMap.  Measured: one static `headers.insert(ETAG, HeaderValue::from_static("v"))` is not
//    constant-folded by CBMC (the probe loops of `HeaderMap::try_insert2` / `do_insert_phase_two` run to the unwinding
//    bound), after it the variant of `Body` is symbolic and a single run (k = 1, 8 polls) exhausts 10 GB after 450 s —
//    three attempts (insert inside the future, insert before the first poll, trailers inspected at one poll only).
//    Instead the `_marked` variants give the response a header map allocated with `HeaderMap::with_capacity(2)` (no
//    entry, no hashing) and recognise THAT map in the trailers frame by its capacity (a fresh map has capacity 0):
//    this checks that the trailers frame carries the header map of the response; the contents of a non-empty map are
//    not exercised;
//  * tick: `verif_kani::Interval` above, arbitrary Ready/Pending at every poll;
//  * waker: `Waker::noop()`; the consumer polls POLLS = 8 times, also after the end of the stream.
//
// Reference (written from the property statement, not from the code): the frame sequence is
//     initial?  (b" ")*  document-frame  trailers(headers of the response)  None*        on Ok
//     initial?  (b" ")*  Err  None*                                                        on Err
// with `Pending` allowed only inside the whitespace phase.
pub(crate) mod verif_kani_kab {
    use super::*;
    use core::mem::forget;

    /// capacity that marks the header map of the Ok response in the `_marked` variants
    const MARK_CAPACITY: usize = 2;

    const INITIAL: &[u8] = b"<?xml?>";
    const DOC: &[u8] = b"<X/>";
    const POLLS: usize = 8;

    // outcome codes of one poll
    const O_NONE: u8 = 0; // Ready(None)
    const O_PENDING: u8 = 1; // Pending
    const O_INITIAL: u8 = 2; // data frame == INITIAL
    const O_SPACE: u8 = 3; // data frame == b" "
    const O_DOC: u8 = 4; // data frame == DOC
    const O_TRAILERS: u8 = 5; // trailers frame carrying exactly the headers of the response
    const O_ERR: u8 = 6; // Ready(Some(Err(_)))
    const O_OTHER_DATA: u8 = 7; // any other data frame
    const O_BAD_TRAILERS: u8 = 8; // trailers frame with other contents
    const O_UNPOLLED: u8 = 9;

    #[derive(Debug)]
    struct LateError;
    impl core::fmt::Display for LateError {
        fn fmt(&self, _f: &mut core::fmt::Formatter<'_>) -> core::fmt::Result {
            Ok(())
        }
    }
    impl std::error::Error for LateError {}

    pub(crate) struct Backend {
        pending_left: u8,
        /// the answer of the backend, built by the harness before the first poll and handed out at completion
        answer: Option<Result<Response, StdError>>,
        completed: bool,
    }

    impl Future for Backend {
        type Output = Result<Response, StdError>;

        fn poll(mut self: Pin<&mut Self>, cx: &mut Context<'_>) -> Poll<Self::Output> {
            assert!(!self.completed, "the backend future is polled again after it has completed");
            if self.pending_left > 0 {
                self.pending_left -= 1;
                cx.waker().wake_by_ref();
                return Poll::Pending;
            }
            self.completed = true;
            match self.answer.take() {
                Some(a) => Poll::Ready(a),
                None => unreachable!(),
            }
        }
    }

    fn answer(ok: bool, marked_map: bool) -> Result<Response, StdError> {
        if ok {
            let mut res = Response::default();
            res.body = crate::http::Body::from(Bytes::from_static(DOC));
            if marked_map {
                res.headers = hyper::HeaderMap::with_capacity(MARK_CAPACITY);
            }
            Ok(res)
        } else {
            Err(Box::new(LateError))
        }
    }

    fn same_bytes(a: &[u8], b: &[u8]) -> bool {
        if a.len() != b.len() {
            return false;
        }
        let mut ok = true;
        let mut i = 0;
        while i < b.len() {
            if a[i] != b[i] {
                ok = false;
            }
            i += 1;
        }
        ok
    }

    /// `inspect_trailers`: look into a trailers frame only at polls where the backend has completed
    /// before the poll — a trailers frame at any other poll is a violation whatever it carries (O_BAD_TRAILERS).
    /// (Measured: looking into the frame at every poll makes symbolic execution evaluate `HeaderMap::get` on the
    /// merged Pending/whitespace outcome of the waiting polls: out of memory at 10 GB after 540 s.)
    fn classify(out: Poll<Option<Result<Frame<Bytes>, StdError>>>, with_header: bool, inspect_trailers: bool) -> u8 {
        match out {
            Poll::Pending => O_PENDING,
            Poll::Ready(None) => O_NONE,
            Poll::Ready(Some(Err(e))) => {
                forget(e);
                O_ERR
            }
            Poll::Ready(Some(Ok(frame))) => {
                let code = if let Some(d) = frame.data_ref() {
                    let d: &[u8] = d.as_ref();
                    if same_bytes(d, INITIAL) {
                        O_INITIAL
                    } else if same_bytes(d, b" ") {
                        O_SPACE
                    } else if same_bytes(d, DOC) {
                        O_DOC
                    } else {
                        O_OTHER_DATA
                    }
                } else if !inspect_trailers {
                    O_BAD_TRAILERS
                } else if let Some(t) = frame.trailers_ref() {
                    // the header map of the response is recognised by its capacity (see the header comment)
                    let good = if with_header {
                        t.len() == 0 && t.capacity() >= MARK_CAPACITY
                    } else {
                        t.len() == 0 && t.capacity() == 0
                    };
                    if good { O_TRAILERS } else { O_BAD_TRAILERS }
                } else {
                    O_BAD_TRAILERS
                };
                forget(frame);
                code
            }
        }
    }

    /// phases of the reference grammar
    const P_START: u8 = 0; // nothing delivered yet
    const P_WAIT: u8 = 1; // (initial delivered;) waiting for the backend: whitespace / Pending
    const P_DOC: u8 = 2; // the document frame has been delivered, trailers must follow
    const P_END: u8 = 3; // trailers or Err delivered: only None may follow

    fn run(with_initial: bool, with_header: bool, k: u8, ok: bool) {
        let fut = Backend {
            pending_left: k,
            answer: Some(answer(ok, with_header)),
            completed: false,
        };
        let initial = if with_initial { Some(Bytes::from_static(INITIAL)) } else { None };
        let mut body = KeepAliveBody::new(fut, Duration::from_millis(100), initial);
        let mut cx = Context::from_waker(std::task::Waker::noop());

        let mut seq = [O_UNPOLLED; POLLS];
        let mut phase = P_START;
        let mut spaces_or_pendings: u8 = 0;
        assert!(!body.is_end_stream(), "end of stream announced before anything was sent");

        let mut i = 0;
        while i < POLLS {
            // what the environment is going to answer at this poll (concrete: k and Ok/Err are concrete per run)
            let backend_done = body.inner.completed;
            let backend_pending_now = !backend_done && body.inner.pending_left > 0;
            body.interval.last = 0;

            let out = Pin::new(&mut body).poll_frame(&mut cx);
            let tick = body.interval.last;
            let code = classify(out, with_header, backend_done);
            seq[i] = code;

            // ---- reference automaton (its phase depends on the concrete environment only) --------------
            if phase == P_START && with_initial {
                assert!(code == O_INITIAL, "the stream does not start with the initial body");
                phase = P_WAIT;
            } else if phase == P_START || phase == P_WAIT {
                phase = P_WAIT;
                if backend_pending_now {
                    // the backend answers Pending at this poll: whitespace iff the tick fires, else Pending
                    assert!(
                        code == O_SPACE || code == O_PENDING,
                        "something else than whitespace / Pending while the backend is pending"
                    );
                    assert!(code != O_SPACE || tick == 1, "whitespace without a tick");
                    assert!(code != O_PENDING || tick == 2, "Pending although the tick is ready (or was not polled)");
                    spaces_or_pendings += 1;
                } else if ok {
                    // the backend completes at this poll: no more whitespace, no Pending
                    assert!(code == O_DOC, "the document does not follow the completion of the backend");
                    phase = P_DOC;
                } else {
                    assert!(code == O_ERR, "the late error does not follow the completion of the backend");
                    phase = P_END;
                }
            } else if phase == P_DOC {
                assert!(code == O_TRAILERS, "the document is not followed by the trailers of the response");
                phase = P_END;
            } else {
                assert!(code == O_NONE, "a frame after the end of the stream");
            }
            assert!(
                body.is_end_stream() == (phase == P_END),
                "is_end_stream is not `true exactly after trailers / Err`"
            );
            i += 1;
        }
        // within 8 polls every run (<= 1 initial + 3 waits + document + trailers) has ended, and the number of
        // whitespace/Pending answers is the number of times the backend was pending
        assert!(phase == P_END, "the stream did not end");
        assert!(spaces_or_pendings == k);
        assert!(body.inner.completed);

        // ONE cover only: every satisfied cover makes CBMC print a full trace, and with 4 covers the JSON output of the
        // k = 2..3 harnesses made kani-driver exceed the 10 GB address-space cap AFTER CBMC had proved everything
        let s0 = if with_initial { 1 } else { 0 };
        kani::cover!(seq[POLLS - 1] == O_NONE && (k == 0 || seq[s0] == O_SPACE) && (k < 2 || seq[s0 + 1] == O_PENDING));
        forget(body);
    }

    /// every completion timing k = 0..=3 as a CONCRETE loop.  Measured: with a symbolic k (and symbolic Ok/Err) the
    /// state of the body — in particular the variant of `Body` — becomes symbolic, symbolic execution walks into
    /// hyper::body::Incoming and the drop glue of every error type and runs out of memory (10 GB) after 880 s; with
    /// all 8 (k, Ok/Err) runs of 10 polls in one harness the formula has 20 M variables (out of memory at 10 GB).
    /// Hence one harness per (initial body?, Ok/Err), 4 runs of 8 polls each; the tick stays symbolic.
    fn all(with_initial: bool, with_header: bool, ok: bool, k_from: u8, k_to: u8) {
        let mut k = k_from;
        while k <= k_to {
            run(with_initial, with_header, k, ok);
            k += 1;
        }
    }

    macro_rules! kab_harness {
        ($name:ident, $initial:expr, $hdr:expr, $ok:expr, $k_from:expr, $k_to:expr) => {
            #[kani::proof]
            #[kani::unwind(9)]
            pub(crate) fn $name() {
                all($initial, $hdr, $ok, $k_from, $k_to);
            }
        };
    }
    // Ok: 4 runs in one harness need more than 10 GB (12.3 M / 12.8 M variables, allocation failure in the solver
    // with and without initial body), hence two harnesses of 2 runs each
    kab_harness!(c03_kab_initial_ok_marked_k01, true, true, true, 0, 1);
    kab_harness!(c03_kab_initial_ok_marked_k23, true, true, true, 2, 3);
    kab_harness!(c03_kab_noinitial_ok_k01, false, false, true, 0, 1);
    kab_harness!(c03_kab_noinitial_ok_k23, false, false, true, 2, 3);
    kab_harness!(c03_kab_initial_err, true, false, false, 0, 3);
    kab_harness!(c03_kab_noinitial_err, false, false, false, 0, 3);
}
