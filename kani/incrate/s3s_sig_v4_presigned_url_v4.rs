// in-crate Kani harnesses included into the real crate under cfg(kani) (see MANIFEST.hooks)
// C06: X-Amz-Expires parsing and the parameter handling of PresignedUrlV4::parse.
mod verif_kani_presigned_v4 {
    use super::*;

    fn utf8_ok(_v: &[u8]) -> Result<(), core::str::Utf8Error> {
        Ok(())
    }
    fn naive_memchr(x: u8, text: &[u8]) -> Option<usize> {
        let mut i = 0;
        while i < text.len() {
            if text[i] == x {
                return Some(i);
            }
            i += 1;
        }
        None
    }
    fn cpuid_zero(_leaf: u32, _sub: u32) -> core::arch::x86_64::CpuidResult {
        core::arch::x86_64::CpuidResult { eax: 0, ebx: 0, ecx: 0, edx: 0 }
    }
    fn sha_shape_ok(_s: &str) -> bool {
        true
    }

    /// Reference for the text of X-Amz-Expires ("an integer number of seconds", > 0): decimal digits, value > 0.
    /// Rust's `u32::from_str`, which the code uses, additionally accepts ONE leading '+' (observation: "+60" is
    /// accepted as 60; harmless, the parameter is part of the signed query).  N <= 4 so no overflow here.
    fn ref_expires(t: &[u8]) -> Option<i64> {
        let mut i = 0;
        if t.len() > 0 && t[0] == b'+' {
            i = 1;
        }
        if i >= t.len() {
            return None;
        }
        let mut v: i64 = 0;
        while i < t.len() {
            if !(t[i] >= b'0' && t[i] <= b'9') {
                return None;
            }
            v = v * 10 + (t[i] - b'0') as i64;
            i += 1;
        }
        if v > 0 { Some(v) } else { None }
    }

    /// All N-byte 7-bit texts: `parse_expires` = Some(d) iff the text denotes a positive integer (reference above),
    /// and then d is exactly that many whole seconds (no sub-second part).
    fn expires_text<const N: usize>() {
        let b: [u8; N] = kani::any();
        let mut i = 0;
        while i < N {
            kani::assume(b[i] < 128);
            i += 1;
        }
        let got = parse_expires(core::str::from_utf8(&b).unwrap());
        match (got, ref_expires(&b)) {
            (Some(d), Some(v)) => assert!(d.whole_seconds() == v && d.subsec_nanoseconds() == 0),
            (None, None) => {}
            _ => panic!("parse_expires differs from the reference"),
        }
        kani::cover!(got.is_some());
        kani::cover!(got.is_none());
    }

    #[kani::proof]
    #[kani::unwind(8)]
    #[kani::stub(core::str::validations::run_utf8_validation, utf8_ok)]
    fn c06_parse_expires_len1to4() {
        expires_text::<1>();
        expires_text::<2>();
        expires_text::<3>();
        expires_text::<4>();
    }

    /// Edge values: empty, zero, u32::MAX accepted (no 7-day cap: observation), u32::MAX+1 and 11 digits refused,
    /// negative refused.
    #[kani::proof]
    #[kani::unwind(14)]
    #[kani::stub(core::str::validations::run_utf8_validation, utf8_ok)]
    fn c06_parse_expires_edges() {
        assert!(parse_expires("").is_none());
        assert!(parse_expires("0").is_none());
        assert!(parse_expires("000").is_none());
        assert!(parse_expires("-1").is_none());
        assert!(parse_expires("4294967296").is_none());
        assert!(parse_expires("99999999999").is_none());
        assert!(matches!(parse_expires("4294967295"), Some(d) if d.whole_seconds() == 4294967295));
        assert!(matches!(parse_expires("604800"), Some(d) if d.whole_seconds() == 604800));
        assert!(matches!(parse_expires("604801"), Some(d) if d.whole_seconds() == 604801));
        kani::cover!(true);
    }

    const PARAMS: [(&str, &str); 6] = [
        ("X-Amz-Algorithm", "AWS4-HMAC-SHA256"),
        ("X-Amz-Credential", "AK/20130524/us/s3/aws4_request"),
        ("X-Amz-Date", "20130524T000000Z"),
        ("X-Amz-Expires", "86400"),
        ("X-Amz-SignedHeaders", "host;x-amz-date"),
        ("X-Amz-Signature", "e3b0c44298fc1c149afbf4c8996fb92427ae41e4649b934ca495991b7852b855"),
    ];

    /// mode 0: all six parameters once; mode 1: parameter k missing; mode 2: parameter k twice (same value);
    /// mode 3: parameter k twice, the second time with another value.  An unrelated parameter "versionId" is present.
    fn build(mode: u8, k: usize) -> OrderedQs {
        let mut v: Vec<(String, String)> = Vec::with_capacity(8);
        v.push((String::from("versionId"), String::from("1")));
        let mut j = 0;
        while j < 6 {
            let (n, val) = PARAMS[j];
            if !(mode == 1 && j == k) {
                v.push((String::from(n), String::from(val)));
            }
            if mode == 2 && j == k {
                v.push((String::from(n), String::from(val)));
            }
            if mode == 3 && j == k {
                v.push((String::from(n), String::from("x")));
            }
            j += 1;
        }
        OrderedQs::kani_from_vec(v)
    }

    fn eqs(a: &str, b: &str) -> bool {
        let (a, b) = (a.as_bytes(), b.as_bytes());
        if a.len() != b.len() {
            return false;
        }
        let mut i = 0;
        while i < a.len() {
            if a[i] != b[i] {
                return false;
            }
            i += 1;
        }
        true
    }

    /// The complete parameter set parses to exactly the written values (credential split into its scope, signed
    /// headers split at ';' in order, expiry in seconds).
    #[cfg(kani_unfinished)] // did not finish within the budget (see the C05/C06/C11 report); enable with --cfg kani_unfinished
    #[kani::proof]
    #[kani::unwind(24)]
    #[kani::stub(core::str::validations::run_utf8_validation, utf8_ok)]
    #[kani::stub(core::slice::memchr::memchr, naive_memchr)]
    #[kani::stub(core::arch::x86_64::__cpuid_count, cpuid_zero)]
    #[kani::stub(crate::utils::crypto::is_sha256_checksum, sha_shape_ok)]
    fn c06_presigned_v4_parse_complete() {
        let qs = build(0, 0);
        let p = PresignedUrlV4::parse(&qs).ok().unwrap();
        assert!(eqs(p.algorithm, "AWS4-HMAC-SHA256"));
        assert!(eqs(p.credential.access_key_id, "AK") && eqs(p.credential.date, "20130524"));
        assert!(eqs(p.credential.aws_region, "us") && eqs(p.credential.aws_service, "s3"));
        assert!(p.expires.whole_seconds() == 86400);
        assert!(p.signed_headers.len() == 2 && eqs(p.signed_headers[0], "host") && eqs(p.signed_headers[1], "x-amz-date"));
        assert!(eqs(p.signature, PARAMS[5].1));
        core::mem::forget(p);
        core::mem::forget(qs);
        kani::cover!(true);
    }

    /// For each of the six X-Amz-* parameters k: the query without k, with k repeated, and with k repeated with a
    /// different value is refused (every parameter is read through get_unique).
    fn missing_or_dup(k: usize) {
        let mut mode = 1u8;
        while mode <= 3 {
            let qs = build(mode, k);
            let r = PresignedUrlV4::parse(&qs);
            assert!(r.is_err());
            core::mem::forget(r);
            core::mem::forget(qs);
            mode += 1;
        }
        kani::cover!(true);
    }

    macro_rules! missing_dup_harness {
        ($name:ident, $k:expr) => {
            #[cfg(kani_unfinished)] // did not finish within the budget (see the C05/C06/C11 report); enable with --cfg kani_unfinished
            #[kani::proof]
            #[kani::unwind(24)]
            #[kani::stub(core::str::validations::run_utf8_validation, utf8_ok)]
            #[kani::stub(core::slice::memchr::memchr, naive_memchr)]
            #[kani::stub(core::arch::x86_64::__cpuid_count, cpuid_zero)]
            #[kani::stub(crate::utils::crypto::is_sha256_checksum, sha_shape_ok)]
            fn $name() {
                missing_or_dup($k);
            }
        };
    }
    missing_dup_harness!(c06_presigned_v4_param_algorithm, 0);
    missing_dup_harness!(c06_presigned_v4_param_credential, 1);
    missing_dup_harness!(c06_presigned_v4_param_date, 2);
    missing_dup_harness!(c06_presigned_v4_param_expires, 3);
    missing_dup_harness!(c06_presigned_v4_param_signed_headers, 4);
    missing_dup_harness!(c06_presigned_v4_param_signature, 5);
}
