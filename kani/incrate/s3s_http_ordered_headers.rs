// in-crate Kani harnesses included into the real crate under cfg(kani) (see MANIFEST.hooks)
// C01/C05 leaf: OrderedHeaders::get_unique / get_all (same algorithm as OrderedQs, over borrowed strs).
mod verif_kani_ordered_headers {
    use super::*;

    /// Constructor usable from the other in-crate harness files (`from_slice_unchecked` is cfg(test) only):
    /// same body minus the name-alphabet assertion.
    impl<'a> OrderedHeaders<'a> {
        pub(crate) fn kani_from_slice(slice: &[(&'a str, &'a str)]) -> Self {
            let mut headers = Vec::new();
            headers.extend_from_slice(slice);
            stable_sort_by_first(&mut headers);
            Self { headers }
        }
    }

    const NAMES: [&str; 2] = ["a", "b"];
    const VALUES: [&str; 3] = ["0", "1", "2"];

    /// N header lines (name_i, value_i): name_i is "a" or "b" by a symbolic flag, value_i is the decimal input
    /// position.  For n in {"a","b"} and the absent name "c": get_unique(n) = Some(value) iff exactly one line is
    /// named n; get_all(n) yields exactly the values of the lines named n, in input order (stable sort).
    fn leaf<const N: usize>() {
        let mut flags = [false; N];
        let mut lines: [(&str, &str); N] = [("", ""); N];
        let mut i = 0;
        while i < N {
            flags[i] = kani::any();
            lines[i] = (NAMES[flags[i] as usize], VALUES[i]);
            i += 1;
        }
        let hs = OrderedHeaders::kani_from_slice(&lines);
        assert!(hs.as_ref().len() == N);

        let probes: [(&str, u8); 3] = [("a", 0), ("b", 1), ("c", 2)];
        let mut p = 0;
        while p < 3 {
            let (name, which) = probes[p];
            let mut cnt = 0usize;
            let mut pos = [0u8; N];
            let mut i = 0;
            while i < N {
                if flags[i] as u8 == which {
                    pos[cnt] = b'0' + i as u8;
                    cnt += 1;
                }
                i += 1;
            }
            match hs.get_unique(name) {
                Some(v) => {
                    assert!(cnt == 1);
                    assert!(v.len() == 1 && v.as_bytes()[0] == pos[0]);
                }
                None => assert!(cnt != 1),
            }
            let mut k = 0usize;
            for v in hs.get_all(name) {
                assert!(k < cnt);
                assert!(v.len() == 1 && v.as_bytes()[0] == pos[k]);
                k += 1;
            }
            assert!(k == cnt);
            p += 1;
        }
        core::mem::forget(hs);
        kani::cover!(true);
    }

    #[kani::proof]
    #[kani::unwind(8)]
    fn c01_ordered_headers_leaf_2lines() {
        leaf::<2>();
    }

    #[kani::proof]
    #[kani::unwind(10)]
    fn c01_ordered_headers_leaf_3lines() {
        leaf::<3>();
    }
}
