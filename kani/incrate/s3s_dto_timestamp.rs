// in-crate Kani harnesses included into the real crate under cfg(kani) (see MANIFEST.hooks)
