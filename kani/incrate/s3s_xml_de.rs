// in-crate Kani harnesses included into the real crate under cfg(kani) (see MANIFEST.hooks)
// C13 (event layer): xml/de.rs `Deserializer` (read_event / expect_* / named_element / text / String content)
// with quick-xml 0.37.4 compiled, plus the text escaping of xml/ser.rs through the public `Serializer`.
//
// Documents are STATIC skeletons in stack arrays with 0..=3 symbolic bytes at concrete positions.
// The reference ("XML meaning") is written from XML 1.0: section 2.4 (character data: every character except
// '<' and '&' is plain text, '>' included unless it ends "]]>"; `&lt; &gt; &amp; &quot; &apos; &#N; &#xN;`
// denote one character), 2.7 (a CDATA section denotes its literal content), 2.5 (a comment is not part of the
// character data, the text on both sides of it is), 2.1/2.8 (document = prolog element Misc*: after the root
// element only white space, comments and processing instructions), 2.10 (white space in content is significant
// and must be passed to the application).
// The decode pipeline is that of `http::take_xml_body`: `named_element(root, content)` then `expect_eof()`.
pub(crate) mod verif_kani_xml {
    use super::*;
    use core::mem::forget;

    pub(crate) fn cpuid_zero(_leaf: u32, _sub: u32) -> core::arch::x86_64::CpuidResult {
        core::arch::x86_64::CpuidResult {
            eax: 0,
            ebx: 0,
            ecx: 0,
            edx: 0,
        }
    }

    use ::memchr::memchr as memchr_fn;
    use quick_xml::parser::{ElementParser, Parser, PiParser};

    /// stub of `memchr::memchr` (STYLE.md 4a): index loop instead of the pointer / SSE2 search
    pub(crate) fn naive_memchr(x: u8, text: &[u8]) -> Option<usize> {
        let mut i = 0;
        while i < text.len() {
            if text[i] == x {
                return Some(i);
            }
            i += 1;
        }
        None
    }

    /// stub of `<quick_xml::parser::ElementParser as Parser>::feed`: the same state machine over an index loop
    /// instead of `memchr3_iter`
    pub(crate) fn element_feed(p: &mut ElementParser, bytes: &[u8]) -> Option<usize> {
        let mut i = 0;
        while i < bytes.len() {
            let b = bytes[i];
            match (*p, b) {
                (ElementParser::Outside, b'>') => return Some(i),
                (ElementParser::Outside, b'\'') => *p = ElementParser::SingleQ,
                (ElementParser::Outside, b'"') => *p = ElementParser::DoubleQ,
                (ElementParser::SingleQ, b'\'') | (ElementParser::DoubleQ, b'"') => *p = ElementParser::Outside,
                _ => {}
            }
            i += 1;
        }
        None
    }

    /// stub of `<quick_xml::parser::PiParser as Parser>::feed`: index loop instead of `memchr_iter`
    pub(crate) fn pi_feed(p: &mut PiParser, bytes: &[u8]) -> Option<usize> {
        let mut i = 0;
        while i < bytes.len() {
            if bytes[i] == b'>' {
                if i == 0 {
                    if p.0 {
                        return Some(0);
                    }
                } else if bytes[i - 1] == b'?' {
                    return Some(i);
                }
            }
            i += 1;
        }
        p.0 = bytes.len() > 0 && bytes[bytes.len() - 1] == b'?';
        None
    }

    /// smallest instance: one concrete document (measured: symbolic execution not finished after 540 s)
    #[kani::proof]
    #[kani::unwind(10)]
    #[kani::stub(core::arch::x86_64::__cpuid_count, cpuid_zero)]
    #[kani::stub(memchr_fn, naive_memchr)]
    #[kani::stub(<ElementParser as Parser>::feed, element_feed)]
    #[kani::stub(<PiParser as Parser>::feed, pi_feed)]
    #[kani::stub(core::str::validations::run_utf8_validation, utf8_ok)]
    pub(crate) fn c13_probe_events() {
        let (accepted, n, v) = decode_a(b"<a>x</a>");
        assert!(accepted && n == 1 && v[0] == b'x');
        kani::cover!(true);
    }

    /// outcome of decoding `doc` as `<a>String</a>` + end of document
    /// returns (accepted, length of the value, first 8 bytes of the value)
    fn decode_a(doc: &[u8]) -> (bool, usize, [u8; 8]) {
        let mut d = Deserializer::new(doc);
        let r: DeResult<String> = d.named_element("a", |d| String::deserialize_content(d));
        let mut out = [0u8; 8];
        let mut n = 0;
        let mut accepted = false;
        match &r {
            Ok(s) => {
                let eof = d.expect_eof();
                accepted = eof.is_ok();
                forget(eof);
                let b = s.as_bytes();
                n = b.len();
                let mut i = 0;
                while i < 8 {
                    if i < n {
                        out[i] = b[i];
                    }
                    i += 1;
                }
            }
            Err(_) => {}
        }
        forget(r);
        forget(d);
        (accepted, n, out)
    }

    fn put(doc: &mut [u8], at: usize, s: &[u8]) -> usize {
        let mut i = 0;
        while i < s.len() {
            doc[at + i] = s[i];
            i += 1;
        }
        at + s.len()
    }

    // STATUS (measured, Kani 0.68 / CBMC 6.11, --mem 10): NONE of the harnesses of this file finishes — they are kept
    // as the executable statement of the event-layer obligations and are listed with "tier": "none" in
    // kani/specs/C13.json.  The same references were run natively over the same finite input sets (see the report:
    // 400 plain-text documents and 399 escaped texts conform; CDATA / comment / text-outside-root defects confirmed).
    //  * symbolic content bytes (first version): `<a>` + ONE symbolic byte over the alphabet + `</a>`: symbolic
    //    execution not finished after 8 min (killed at 2.3 GB).  The position of the markup — hence the length of the
    //    slice every later memchr call sees — is symbolic; CBMC unrolls the SSE2 vector loops of memchr to the bound.
    //  * therefore every harness ENUMERATES its documents with concrete loops (same finite input set).  Still not
    //    feasible: `c13_probe_events` (ONE concrete document `<a>x</a>`, stubs: cpuid, memchr::memchr -> index loop,
    //    ElementParser::feed / PiParser::feed -> index loops, run_utf8_validation -> Ok) does not leave symbolic
    //    execution within 540 s.  Cause (from the unwinding log): the dispatch of quick-xml's `read_until_close`
    //    (`match reader.peek_one() { Ok(Some(b'!')) .. Ok(Some(b'/')) .. Ok(Some(b'?')) .. Ok(Some(_)) .. }` on the
    //    niche-encoded `io::Result<Option<u8>>`) is not constant-folded by CBMC: at EVERY markup all four arms (bang,
    //    end tag, processing instruction, start tag) are executed although the byte is concrete, each leaves the
    //    reader at a different position, and from the second event on every slice has a symbolic length (all loops —
    //    name_len, memcmp, UTF-8 validation, my index loops — run to the unwinding bound).  The memchr iterators
    //    (memchr_iter / memchr2_iter / memchr3_iter) cannot be stubbed from safe code (private fields), `BangType::parse`
    //    (comments, CDATA) not at all (private type).

    const TEXT_ALPHABET: [u8; 7] = [b'x', b' ', b'\t', b'\n', b'>', b'&', b'<'];

    // ----------------------------------------------------------------------------------------------
    // (a) `<a>` + N bytes over { 'x', ' ', '\t', '\n', '>', '&', '<' } + `</a>`, all 7^N texts
    //     XML meaning: with a '<' (no tag of <= 3 bytes can be closed again before `</a>`) or a '&' (no ';' in the
    //     alphabet: an unterminated reference) the document is not well-formed and must be refused; otherwise the
    //     value is exactly the N bytes (white space included: nothing trimmed, nothing dropped) and the document
    //     is accepted.
    // ----------------------------------------------------------------------------------------------
    fn check_plain_text(t: &[u8]) {
        let n_text = t.len();
        let mut buf = [0u8; 16];
        let p = put(&mut buf, 0, b"<a>");
        let p = put(&mut buf, p, t);
        let p = put(&mut buf, p, b"</a>");
        let doc = &buf[..p];

        let mut wellformed = true;
        let mut i = 0;
        while i < n_text {
            if t[i] == b'<' || t[i] == b'&' {
                wellformed = false;
            }
            i += 1;
        }

        let (accepted, n, v) = decode_a(doc);
        if !wellformed {
            assert!(!accepted, "a document that is not well-formed is accepted");
        } else {
            assert!(accepted, "a well-formed <a>text</a> is refused");
            assert!(n == n_text, "the decoded value has another length than the character data");
            let mut i = 0;
            while i < n_text {
                assert!(v[i] == t[i], "the decoded value differs from the character data");
                i += 1;
            }
        }
    }

    #[kani::proof]
    #[kani::unwind(14)]
    #[kani::stub(core::arch::x86_64::__cpuid_count, cpuid_zero)]
    #[kani::stub(memchr_fn, naive_memchr)]
    #[kani::stub(<ElementParser as Parser>::feed, element_feed)]
    #[kani::stub(<PiParser as Parser>::feed, pi_feed)]
    #[kani::stub(core::str::validations::run_utf8_validation, utf8_ok)]
    pub(crate) fn c13_text_0_1() {
        check_plain_text(b"");
        let mut i = 0;
        while i < 7 {
            check_plain_text(&[TEXT_ALPHABET[i]]);
            i += 1;
        }
        kani::cover!(true);
    }

    #[kani::proof]
    #[kani::unwind(14)]
    #[kani::stub(core::arch::x86_64::__cpuid_count, cpuid_zero)]
    #[kani::stub(memchr_fn, naive_memchr)]
    #[kani::stub(<ElementParser as Parser>::feed, element_feed)]
    #[kani::stub(<PiParser as Parser>::feed, pi_feed)]
    #[kani::stub(core::str::validations::run_utf8_validation, utf8_ok)]
    pub(crate) fn c13_text_2() {
        let mut i = 0;
        while i < 7 {
            let mut j = 0;
            while j < 7 {
                check_plain_text(&[TEXT_ALPHABET[i], TEXT_ALPHABET[j]]);
                j += 1;
            }
            i += 1;
        }
        kani::cover!(true);
    }

    /// all 49 texts of 3 bytes that start with TEXT_ALPHABET[FIRST]
    fn text_3(first: usize) {
        let mut i = 0;
        while i < 7 {
            let mut j = 0;
            while j < 7 {
                check_plain_text(&[TEXT_ALPHABET[first], TEXT_ALPHABET[i], TEXT_ALPHABET[j]]);
                j += 1;
            }
            i += 1;
        }
        kani::cover!(true);
    }

    macro_rules! text_3_harness {
        ($name:ident, $first:expr) => {
            #[kani::proof]
            #[kani::unwind(14)]
            #[kani::stub(core::arch::x86_64::__cpuid_count, cpuid_zero)]
    #[kani::stub(memchr_fn, naive_memchr)]
    #[kani::stub(<ElementParser as Parser>::feed, element_feed)]
    #[kani::stub(<PiParser as Parser>::feed, pi_feed)]
    #[kani::stub(core::str::validations::run_utf8_validation, utf8_ok)]
            pub(crate) fn $name() {
                text_3($first);
            }
        };
    }
    text_3_harness!(c13_text_3_x, 0);
    text_3_harness!(c13_text_3_sp, 1);
    text_3_harness!(c13_text_3_tab, 2);
    text_3_harness!(c13_text_3_nl, 3);
    text_3_harness!(c13_text_3_gt, 4);
    text_3_harness!(c13_text_3_amp, 5);
    text_3_harness!(c13_text_3_lt, 6);

    // ----------------------------------------------------------------------------------------------
    // (a2) references: `<a>` b0 REF b1 `</a>`, b0, b1 over { 'x', ' ', '>' } (all 9 contexts), REF one of the five
    //      predefined entities or a decimal / hexadecimal character reference: accepted, value = b0 CHAR b1
    // ----------------------------------------------------------------------------------------------
    const CONTEXT: [u8; 3] = [b'x', b' ', b'>'];

    fn check_reference(r: &[u8], ch: u8) {
        let mut i = 0;
        while i < 3 {
            let mut j = 0;
            while j < 3 {
                let b0 = CONTEXT[i];
                let b1 = CONTEXT[j];
                let mut buf = [0u8; 16];
                let p = put(&mut buf, 0, b"<a>");
                buf[p] = b0;
                let p = put(&mut buf, p + 1, r);
                buf[p] = b1;
                let p = put(&mut buf, p + 1, b"</a>");
                let (accepted, n, v) = decode_a(&buf[..p]);
                assert!(accepted, "a well-formed document with a predefined / character reference is refused");
                assert!(
                    n == 3 && v[0] == b0 && v[1] == ch && v[2] == b1,
                    "the reference is not replaced by its character"
                );
                j += 1;
            }
            i += 1;
        }
    }

    #[kani::proof]
    #[kani::unwind(18)]
    #[kani::stub(core::arch::x86_64::__cpuid_count, cpuid_zero)]
    #[kani::stub(memchr_fn, naive_memchr)]
    #[kani::stub(<ElementParser as Parser>::feed, element_feed)]
    #[kani::stub(<PiParser as Parser>::feed, pi_feed)]
    #[kani::stub(core::str::validations::run_utf8_validation, utf8_ok)]
    pub(crate) fn c13_ref_predefined() {
        check_reference(b"&lt;", b'<');
        check_reference(b"&gt;", b'>');
        check_reference(b"&amp;", b'&');
        check_reference(b"&quot;", b'"');
        check_reference(b"&apos;", b'\'');
        kani::cover!(true);
    }

    #[kani::proof]
    #[kani::unwind(18)]
    #[kani::stub(core::arch::x86_64::__cpuid_count, cpuid_zero)]
    #[kani::stub(memchr_fn, naive_memchr)]
    #[kani::stub(<ElementParser as Parser>::feed, element_feed)]
    #[kani::stub(<PiParser as Parser>::feed, pi_feed)]
    #[kani::stub(core::str::validations::run_utf8_validation, utf8_ok)]
    pub(crate) fn c13_ref_char() {
        check_reference(b"&#65;", b'A');
        check_reference(b"&#x41;", b'A');
        kani::cover!(true);
    }

    // ----------------------------------------------------------------------------------------------
    // (b) end of document: `<a>x</a>` + tail
    //     XML 1.0 [1] document ::= prolog element Misc*,  Misc ::= Comment | PI | S
    // ----------------------------------------------------------------------------------------------
    fn decode_tail(doc: &[u8]) -> bool {
        let (accepted, n, v) = decode_a(doc);
        assert!(!accepted || (n == 1 && v[0] == b'x'));
        accepted
    }

    /// a second root element (empty, non-empty, same name) is refused; trailing white space, a trailing comment
    /// and a trailing processing instruction are accepted
    #[kani::proof]
    #[kani::unwind(24)]
    #[kani::stub(core::arch::x86_64::__cpuid_count, cpuid_zero)]
    #[kani::stub(memchr_fn, naive_memchr)]
    #[kani::stub(<ElementParser as Parser>::feed, element_feed)]
    #[kani::stub(<PiParser as Parser>::feed, pi_feed)]
    #[kani::stub(core::str::validations::run_utf8_validation, utf8_ok)]
    pub(crate) fn c13_eof_second_root() {
        assert!(!decode_tail(b"<a>x</a><b/>"), "a second root element is accepted");
        assert!(!decode_tail(b"<a>x</a><a>x</a>"), "a second root element is accepted");
        assert!(!decode_tail(b"<a>x</a></a>"), "a stray end tag after the root is accepted");
        assert!(decode_tail(b"<a>x</a> \n\t"), "trailing white space is refused");
        assert!(decode_tail(b"<a>x</a><!--c-->"), "a trailing comment is refused");
        assert!(decode_tail(b"<a>x</a><?p?>\n"), "a trailing processing instruction is refused");
        kani::cover!(true);
    }

    const TAIL_ALPHABET: [u8; 5] = [b' ', b'\n', b'x', b'&', b'<'];

    fn white(c: u8) -> bool {
        c == b' ' || c == b'\n' || c == b'\t' || c == b'\r'
    }

    /// `finding_role`: false = tails that are all white space (must be accepted) or contain a '<' (no markup of
    /// <= 2 bytes is well-formed: must be refused); true = the remaining tails = character data after the root
    /// element (must be refused).
    fn check_tail(tail: &[u8], finding_role: bool) {
        let mut all_white = true;
        let mut has_lt = false;
        let mut i = 0;
        while i < tail.len() {
            if !white(tail[i]) {
                all_white = false;
            }
            if tail[i] == b'<' {
                has_lt = true;
            }
            i += 1;
        }
        let role = !all_white && !has_lt;
        if role != finding_role {
            return;
        }
        let mut buf = [0u8; 16];
        let p = put(&mut buf, 0, b"<a>x</a>");
        let p = put(&mut buf, p, tail);
        let accepted = decode_tail(&buf[..p]);
        assert!(accepted == all_white, "acceptance differs from `only white space may follow the root element`");
    }

    fn tails(finding_role: bool) {
        let mut i = 0;
        while i < 5 {
            check_tail(&[TAIL_ALPHABET[i]], finding_role);
            let mut j = 0;
            while j < 5 {
                check_tail(&[TAIL_ALPHABET[i], TAIL_ALPHABET[j]], finding_role);
                j += 1;
            }
            i += 1;
        }
    }

    /// all tails of 1 and 2 bytes over { ' ', '\n', 'x', '&', '<' }: accepted iff white space only.
    /// FINDING xml_text_outside_root: tails that are character data ("x", "&", " x", "x ", ...) are accepted; that
    /// role of inputs is excluded here and exhibited by `c13_finding_xml_text_outside_root`.
    #[kani::proof]
    #[kani::unwind(14)]
    #[kani::stub(core::arch::x86_64::__cpuid_count, cpuid_zero)]
    #[kani::stub(memchr_fn, naive_memchr)]
    #[kani::stub(<ElementParser as Parser>::feed, element_feed)]
    #[kani::stub(<PiParser as Parser>::feed, pi_feed)]
    #[kani::stub(core::str::validations::run_utf8_validation, utf8_ok)]
    pub(crate) fn c13_eof_tail() {
        tails(false);
        kani::cover!(true);
    }

    /// character data after (`<a>x</a>x`, ...) or before (`x<a>x</a>`) the root element: not well-formed, to be refused
    #[kani::proof]
    #[kani::unwind(14)]
    #[kani::stub(core::arch::x86_64::__cpuid_count, cpuid_zero)]
    #[kani::stub(memchr_fn, naive_memchr)]
    #[kani::stub(<ElementParser as Parser>::feed, element_feed)]
    #[kani::stub(<PiParser as Parser>::feed, pi_feed)]
    #[kani::stub(core::str::validations::run_utf8_validation, utf8_ok)]
    pub(crate) fn c13_finding_xml_text_outside_root() {
        assert!(!decode_tail(b"x<a>x</a>"), "character data before the root element is accepted");
        tails(true);
        kani::cover!(true);
    }

    // ----------------------------------------------------------------------------------------------
    // (c) CDATA sections and comments inside character data
    // ----------------------------------------------------------------------------------------------

    /// `<a>x<![CDATA[y]]></a>` means "xy", `<a><![CDATA[y]]></a>` means "y": accepted with that value or refused,
    /// never a shortened value
    #[kani::proof]
    #[kani::unwind(24)]
    #[kani::stub(core::arch::x86_64::__cpuid_count, cpuid_zero)]
    #[kani::stub(memchr_fn, naive_memchr)]
    #[kani::stub(<ElementParser as Parser>::feed, element_feed)]
    #[kani::stub(<PiParser as Parser>::feed, pi_feed)]
    #[kani::stub(core::str::validations::run_utf8_validation, utf8_ok)]
    pub(crate) fn c13_finding_xml_cdata_dropped() {
        let (accepted, n, v) = decode_a(b"<a>x<![CDATA[y]]></a>");
        assert!(!accepted || (n == 2 && v[0] == b'x' && v[1] == b'y'), "CDATA content is dropped from the value");
        let (accepted, n, v) = decode_a(b"<a><![CDATA[y]]></a>");
        assert!(!accepted || (n == 1 && v[0] == b'y'), "CDATA content is dropped from the value");
        kani::cover!(true);
    }

    /// `<a>x<!--c-->y</a>` means "xy": accepted with that value or refused, never a shortened value
    #[kani::proof]
    #[kani::unwind(24)]
    #[kani::stub(core::arch::x86_64::__cpuid_count, cpuid_zero)]
    #[kani::stub(memchr_fn, naive_memchr)]
    #[kani::stub(<ElementParser as Parser>::feed, element_feed)]
    #[kani::stub(<PiParser as Parser>::feed, pi_feed)]
    #[kani::stub(core::str::validations::run_utf8_validation, utf8_ok)]
    pub(crate) fn c13_finding_xml_comment_splits_text() {
        let (accepted, n, v) = decode_a(b"<a>x<!--c-->y</a>");
        assert!(!accepted || (n == 2 && v[0] == b'x' && v[1] == b'y'), "the text after a comment is dropped");
        kani::cover!(true);
    }

    /// control: a comment / processing instruction next to the text (not splitting it) leaves the value intact
    #[kani::proof]
    #[kani::unwind(24)]
    #[kani::stub(core::arch::x86_64::__cpuid_count, cpuid_zero)]
    #[kani::stub(memchr_fn, naive_memchr)]
    #[kani::stub(<ElementParser as Parser>::feed, element_feed)]
    #[kani::stub(<PiParser as Parser>::feed, pi_feed)]
    #[kani::stub(core::str::validations::run_utf8_validation, utf8_ok)]
    pub(crate) fn c13_comment_beside_text() {
        let mut i = 0;
        while i < 3 {
            let c = CONTEXT[i];
            let mut doc = *b"<a>?<!--c--></a>";
            doc[3] = c;
            let (accepted, n, v) = decode_a(&doc);
            assert!(accepted && n == 1 && v[0] == c, "text followed by a comment is not decoded as the text");
            let mut doc = *b"<a><?p?>?</a>";
            doc[8] = c;
            let (accepted, n, v) = decode_a(&doc);
            assert!(accepted && n == 1 && v[0] == c, "text preceded by a processing instruction is not decoded as the text");
            i += 1;
        }
        kani::cover!(true);
    }

    // ----------------------------------------------------------------------------------------------
    // (d) encoder escaping: `Serializer::content("a", text)` (xml/ser.rs, public API) for every text of 1..=3 bytes over
    //     { 'x', '<', '>', '&', ']', '"', '\'' }.  The output must be `<a>` CharData-with-references `</a>` where
    //     (XML 1.0 2.4) no raw '<' occurs, every '&' starts one of &lt; &gt; &amp; &quot; &apos;, the raw sequence
    //     "]]>" does not occur, and replacing the references by their characters gives the text back (lossless).
    // ----------------------------------------------------------------------------------------------
    pub(crate) struct Sink {
        buf: [u8; 32],
        n: usize,
    }

    impl std::io::Write for Sink {
        fn write(&mut self, b: &[u8]) -> std::io::Result<usize> {
            let mut i = 0;
            while i < b.len() {
                assert!(self.n < 32, "output longer than any escaping of the text can be");
                self.buf[self.n] = b[i];
                self.n += 1;
                i += 1;
            }
            Ok(b.len())
        }
        fn flush(&mut self) -> std::io::Result<()> {
            Ok(())
        }
    }

    pub(crate) fn utf8_ok(_v: &[u8]) -> Result<(), core::str::Utf8Error> {
        Ok(())
    }

    /// does `o[at..]` start with `pat`
    fn starts(o: &[u8], end: usize, at: usize, pat: &[u8]) -> bool {
        if at + pat.len() > end {
            return false;
        }
        let mut ok = true;
        let mut i = 0;
        while i < pat.len() {
            if o[at + i] != pat[i] {
                ok = false;
            }
            i += 1;
        }
        ok
    }

    const ESC_ALPHABET: [u8; 7] = [b'x', b'<', b'>', b'&', b']', b'"', b'\''];

    fn check_escaping(t: &[u8]) {
        let n_text = t.len();
        let text = core::str::from_utf8(t).unwrap();
        let mut sink = Sink { buf: [0; 32], n: 0 };
        {
            let mut s = crate::xml::Serializer::new(&mut sink);
            let r = s.content("a", text);
            assert!(r.is_ok());
            forget(r);
            forget(s);
        }
        let o = &sink.buf;
        let end = sink.n;
        assert!(end >= 7 && end <= 32);
        assert!(starts(o, end, 0, b"<a>"), "the element does not start with its start tag");
        assert!(starts(o, end, end - 4, b"</a>"), "the element does not end with its end tag");
        let end = end - 4;
        // reference scan of the character data o[3..end]
        let mut p = 3;
        let mut k = 0; // number of characters denoted so far
        while k < n_text {
            assert!(p < end, "the character data is shorter than the text");
            let c = o[p];
            assert!(c != b'<', "raw '<' in character data");
            let ch;
            if c == b'&' {
                if starts(o, end, p, b"&lt;") {
                    ch = b'<';
                    p += 4;
                } else if starts(o, end, p, b"&gt;") {
                    ch = b'>';
                    p += 4;
                } else if starts(o, end, p, b"&amp;") {
                    ch = b'&';
                    p += 5;
                } else if starts(o, end, p, b"&quot;") {
                    ch = b'"';
                    p += 6;
                } else if starts(o, end, p, b"&apos;") {
                    ch = b'\'';
                    p += 6;
                } else {
                    panic!("raw '&' that does not start a predefined entity reference");
                }
            } else {
                assert!(!starts(o, end, p, b"]]>"), "raw \"]]>\" in character data");
                ch = c;
                p += 1;
            }
            assert!(ch == t[k], "the character data does not denote the text");
            k += 1;
        }
        assert!(p == end, "the character data is longer than the text");
    }

    /// all 7 texts of 1 byte
    #[kani::proof]
    #[kani::unwind(20)]
    #[kani::stub(core::arch::x86_64::__cpuid_count, cpuid_zero)]
    #[kani::stub(core::str::validations::run_utf8_validation, utf8_ok)]
    pub(crate) fn c13_ser_escape_1() {
        let mut i = 0;
        while i < 7 {
            check_escaping(&[ESC_ALPHABET[i]]);
            i += 1;
        }
        kani::cover!(true);
    }

    /// all texts of 1 and 2 bytes
    #[kani::proof]
    #[kani::unwind(20)]
    #[kani::stub(core::arch::x86_64::__cpuid_count, cpuid_zero)]
    #[kani::stub(memchr_fn, naive_memchr)]
    #[kani::stub(<ElementParser as Parser>::feed, element_feed)]
    #[kani::stub(<PiParser as Parser>::feed, pi_feed)]
    #[kani::stub(core::str::validations::run_utf8_validation, utf8_ok)]
    pub(crate) fn c13_ser_escape_1_2() {
        let mut i = 0;
        while i < 7 {
            check_escaping(&[ESC_ALPHABET[i]]);
            let mut j = 0;
            while j < 7 {
                check_escaping(&[ESC_ALPHABET[i], ESC_ALPHABET[j]]);
                j += 1;
            }
            i += 1;
        }
        kani::cover!(true);
    }

    /// all 49 texts of 3 bytes that start with ESC_ALPHABET[first]
    fn escape_3(first: usize) {
        let mut i = 0;
        while i < 7 {
            let mut j = 0;
            while j < 7 {
                check_escaping(&[ESC_ALPHABET[first], ESC_ALPHABET[i], ESC_ALPHABET[j]]);
                j += 1;
            }
            i += 1;
        }
        kani::cover!(true);
    }

    macro_rules! escape_3_harness {
        ($name:ident, $first:expr) => {
            #[kani::proof]
            #[kani::unwind(20)]
            #[kani::stub(core::arch::x86_64::__cpuid_count, cpuid_zero)]
    #[kani::stub(memchr_fn, naive_memchr)]
    #[kani::stub(<ElementParser as Parser>::feed, element_feed)]
    #[kani::stub(<PiParser as Parser>::feed, pi_feed)]
    #[kani::stub(core::str::validations::run_utf8_validation, utf8_ok)]
            #[kani::stub(core::str::validations::run_utf8_validation, utf8_ok)]
            pub(crate) fn $name() {
                escape_3($first);
            }
        };
    }
    escape_3_harness!(c13_ser_escape_3_x, 0);
    escape_3_harness!(c13_ser_escape_3_lt, 1);
    escape_3_harness!(c13_ser_escape_3_gt, 2);
    escape_3_harness!(c13_ser_escape_3_amp, 3);
    escape_3_harness!(c13_ser_escape_3_rbracket, 4);
    escape_3_harness!(c13_ser_escape_3_quot, 5);
    escape_3_harness!(c13_ser_escape_3_apos, 6);
}
