// in-crate Kani harnesses included into the real crate under cfg(kani) (see MANIFEST.hooks)
// C12 (K3): host.rs — `is_valid_domain`, `parse_host_header` (private), `SingleDomain`, `MultiDomain`.
//
// Alphabet of every symbolic host / domain byte: { 'a', 'b', '.', ':', '1' }.
// References are written from the property statement ("a host is resolved against the configured base domain
// it belongs to; configurations with overlapping or invalid domains are refused") and from the host syntax of
// RFC 1123 2.1 / RFC 3986 3.2 (`host [ ":" port ]`, dot-separated non-empty labels of letters and digits),
// not from the implementation.
mod verif_kani_host {
    use super::*;
    use core::mem::forget;

    fn assume_alphabet(b: &[u8]) {
        let mut i = 0;
        while i < b.len() {
            let c = b[i];
            kani::assume(c == b'a' || c == b'b' || c == b'.' || c == b':' || c == b'1');
            i += 1;
        }
    }

    /// safe view (the crate forbids unsafe code); the bytes are ASCII by `assume_alphabet`
    fn text(b: &[u8]) -> &str {
        core::str::from_utf8(b).unwrap()
    }

    fn alnum(c: u8) -> bool {
        (c >= b'a' && c <= b'z') || (c >= b'A' && c <= b'Z') || (c >= b'0' && c <= b'9')
    }

    /// Reference: `host [ ":" port ]`; host = non-empty labels of letters/digits separated by single dots
    /// (a '-' inside a label is legal too but is outside the alphabet of these harnesses); port = 1*DIGIT with
    /// a value <= 65535.
    fn ref_valid_domain(d: &[u8]) -> bool {
        let n = d.len();
        // position of the first ':' (n if none)
        let mut colon = n;
        let mut i = n;
        while i > 0 {
            i -= 1;
            if d[i] == b':' {
                colon = i;
            }
        }
        // host part d[..colon]
        if colon == 0 {
            return false;
        }
        let mut label_len = 0;
        let mut i = 0;
        while i < n {
            if i < colon {
                let c = d[i];
                if c == b'.' {
                    if label_len == 0 {
                        return false;
                    }
                    label_len = 0;
                } else if alnum(c) || c == b'-' {
                    label_len += 1;
                } else {
                    return false;
                }
            }
            i += 1;
        }
        if label_len == 0 {
            return false;
        }
        // port part d[colon+1..]
        if colon < n {
            if colon + 1 == n {
                return false;
            }
            let mut v: u64 = 0;
            let mut i = 0;
            while i < n {
                if i > colon {
                    let c = d[i];
                    if !(c >= b'0' && c <= b'9') {
                        return false;
                    }
                    v = v * 10 + (c - b'0') as u64;
                    if v > 65535 {
                        return false;
                    }
                }
                i += 1;
            }
        }
        true
    }

    /// `h` is exactly the base domain `d`
    fn ref_equals(h: &[u8], d: &[u8]) -> bool {
        if h.len() != d.len() {
            return false;
        }
        let mut i = 0;
        while i < d.len() {
            if h[i] != d[i] {
                return false;
            }
            i += 1;
        }
        true
    }

    /// `h` = prefix + "." + `d`  (a dotted sub-domain of the base domain); returns the prefix length
    fn ref_subdomain(h: &[u8], d: &[u8]) -> Option<usize> {
        if h.len() < d.len() + 1 {
            return None;
        }
        let p = h.len() - d.len() - 1;
        if h[p] != b'.' {
            return None;
        }
        let mut i = 0;
        while i < d.len() {
            if h[p + 1 + i] != d[i] {
                return None;
            }
            i += 1;
        }
        Some(p)
    }

    fn same_bytes(a: &[u8], b: &[u8]) -> bool {
        if a.len() != b.len() {
            return false;
        }
        let mut ok = true;
        let mut i = 0;
        while i < b.len() {
            if a[i] != b[i] {
                ok = false;
            }
            i += 1;
        }
        ok
    }

    /// The resolution of host `h` against base domain `d` is right: domain = d, no bucket if h == d,
    /// bucket = the prefix if h = prefix.d, and bucket + "." + domain is the host again.
    fn resolved_to(vh: &VirtualHost<'_>, h: &[u8], d: &[u8]) -> bool {
        if !same_bytes(vh.domain().as_bytes(), d) {
            return false;
        }
        if ref_equals(h, d) {
            return vh.bucket().is_none();
        }
        match (ref_subdomain(h, d), vh.bucket()) {
            (Some(p), Some(b)) => {
                b.len() == p && b.len() + 1 + vh.domain().len() == h.len() && same_bytes(b.as_bytes(), &h[..p])
            }
            _ => false,
        }
    }

    // ----------------------------------------------------------------------------------------------
    // is_valid_domain
    // ----------------------------------------------------------------------------------------------

    /// every text of N bytes over the alphabet: `is_valid_domain` == the reference syntax
    fn valid_domain<const N: usize>() {
        let d: [u8; N] = kani::any();
        assume_alphabet(&d);
        let got = is_valid_domain(text(&d));
        let want = ref_valid_domain(&d);
        assert!(want || !got, "an invalid domain is taken for valid");
        assert!(!want || got, "a valid domain is taken for invalid");
        kani::cover!(N == 0 || got);
        kani::cover!(!got);
    }

    macro_rules! valid_domain_harness {
        ($name:ident, $n:expr, $unwind:expr) => {
            #[kani::proof]
            #[kani::unwind($unwind)]
            #[kani::stub(core::slice::memchr::memchr, verif_naive_memchr)]
            fn $name() {
                valid_domain::<$n>();
            }
        };
    }
    valid_domain_harness!(c12_is_valid_domain_0, 0, 2);
    valid_domain_harness!(c12_is_valid_domain_1, 1, 3);
    valid_domain_harness!(c12_is_valid_domain_2, 2, 4);
    valid_domain_harness!(c12_is_valid_domain_3, 3, 5);
    valid_domain_harness!(c12_is_valid_domain_4, 4, 6);
    // N = 5 (unwind 7) exhausts 8 GB (11 M variables already at N = 3 with a loose unwind): the nested
    // split('.') / CharSearcher / memchr loops cannot be bounded by constant propagation.  Longer domains are
    // covered through the public constructor in /verif/kani/ext/src/c12_host.rs (no UTF-8 validation there).

    pub fn verif_naive_memchr(x: u8, text: &[u8]) -> Option<usize> {
        let mut i = 0;
        while i < text.len() {
            if text[i] == x {
                return Some(i);
            }
            i += 1;
        }
        None
    }

    // ----------------------------------------------------------------------------------------------
    // parse_host_header (private): one base domain of D bytes, a host of H bytes
    // ----------------------------------------------------------------------------------------------

    fn resolve<const D: usize, const H: usize>() {
        let d: [u8; D] = kani::any();
        assume_alphabet(&d);
        let h: [u8; H] = kani::any();
        assume_alphabet(&h);
        let got = parse_host_header(text(&d), text(&h));
        let belongs = ref_equals(&h, &d) || ref_subdomain(&h, &d).is_some();
        match &got {
            Some(vh) => {
                assert!(belongs, "a host that does not belong to the base domain is resolved against it");
                assert!(resolved_to(vh, &h, &d));
            }
            None => assert!(!belongs, "a host of the base domain is not resolved against it"),
        }
        kani::cover!(H < D + 2 || matches!(&got, Some(vh) if vh.bucket().is_some()));
        kani::cover!(H == D || got.is_none());
        forget(got);
    }

    macro_rules! resolve_harness {
        ($name:ident, $d:expr, $h:expr, $unwind:expr) => {
            #[kani::proof]
            #[kani::unwind($unwind)]
            #[kani::stub(core::slice::memchr::memchr, verif_naive_memchr)]
            fn $name() {
                resolve::<$d, $h>();
            }
        };
    }
    resolve_harness!(c12_resolve_1_1, 1, 1, 3);
    resolve_harness!(c12_resolve_1_3, 1, 3, 5);
    resolve_harness!(c12_resolve_3_3, 3, 3, 5);
    resolve_harness!(c12_resolve_3_5, 3, 5, 7);
    resolve_harness!(c12_resolve_3_6, 3, 6, 8);
    resolve_harness!(c12_resolve_2_6, 2, 6, 8);
    resolve_harness!(c12_resolve_3_2, 3, 2, 5);
}
