// in-crate Kani harnesses included into the real crate under cfg(kani) (see MANIFEST.hooks)
// C20: the private wildcard matcher `PatternSet::match_pattern` against a dynamic-programming reference.
mod verif_kani_pattern {
    use super::*;

    const MAXLEN: usize = 12;

    /// Reference written from the documented semantics ("*" any possibly empty sequence, "?" any single
    /// character, every other character itself): m[i][j] <=> pattern[i..] matches input[j..].
    /// No greedy search, no backtracking: plain table filling, so it shares no structure with the
    /// implementation.  Characters are bytes here; the harnesses restrict bytes to ASCII, where the two coincide.
    fn ref_match(p: &[u8], s: &[u8]) -> bool {
        let pl = p.len();
        let sl = s.len();
        let mut m = [[false; MAXLEN + 1]; MAXLEN + 1];
        let mut i = pl + 1;
        while i > 0 {
            i -= 1;
            let mut j = sl + 1;
            while j > 0 {
                j -= 1;
                m[i][j] = if i == pl {
                    j == sl
                } else if p[i] == b'*' {
                    m[i + 1][j] || (j < sl && m[i][j + 1])
                } else {
                    j < sl && (p[i] == b'?' || p[i] == s[j]) && m[i + 1][j + 1]
                };
            }
        }
        m[0][0]
    }

    #[derive(Clone, Copy)]
    enum Alpha {
        /// pattern bytes in {a, b, *, ?}, input bytes in {a, b, c}
        Small,
        /// every 7-bit byte in both (ASCII: one character = one byte)
        Ascii,
        /// every byte value in both (byte-level reading of "character")
        Bytes,
    }

    /// All patterns of length P and all inputs of length N over the alphabet: the implementation returns
    /// exactly what the reference returns; no panic / overflow / out-of-bounds (Kani's default checks).
    fn check<const P: usize, const N: usize>(alpha: Alpha) -> bool {
        let pat: [u8; P] = kani::any();
        let inp: [u8; N] = kani::any();
        let mut k = 0;
        while k < P {
            let c = pat[k];
            match alpha {
                Alpha::Small => kani::assume(c == b'a' || c == b'b' || c == b'*' || c == b'?'),
                Alpha::Ascii => kani::assume(c < 128),
                Alpha::Bytes => {}
            }
            k += 1;
        }
        let mut k = 0;
        while k < N {
            let c = inp[k];
            match alpha {
                Alpha::Small => kani::assume(c == b'a' || c == b'b' || c == b'c'),
                Alpha::Ascii => kani::assume(c < 128),
                Alpha::Bytes => {}
            }
            k += 1;
        }
        let got = PatternSet::match_pattern(&pat, &inp);
        let want = ref_match(&pat, &inp);
        assert!(got == want, "match_pattern differs from the documented wildcard semantics");
        got
    }

    macro_rules! h {
        ($name:ident, $p:expr, $n:expr, $alpha:expr, $unwind:expr) => {
            #[kani::proof]
            #[kani::unwind($unwind)]
            fn $name() {
                let got = check::<$p, $n>($alpha);
                kani::cover!(got);
                kani::cover!(!got);
            }
        };
    }

    // unwind: the matcher's loop runs at most (N+1)*(P+1)+1 times (s_back never decreases, at most P+1 steps
    // between two backtracks); unwinding assertions are on, a too-small bound cannot pass silently.
    h!(c20_match_small_p3_n3, 3, 3, Alpha::Small, 22);
    h!(c20_match_small_p4_n4, 4, 4, Alpha::Small, 32);
    h!(c20_match_small_p5_n5, 5, 5, Alpha::Small, 44);
    h!(c20_match_small_p6_n6, 6, 6, Alpha::Small, 58);
    h!(c20_match_ascii_p3_n3, 3, 3, Alpha::Ascii, 22);
    h!(c20_match_ascii_p4_n4, 4, 4, Alpha::Ascii, 32);
    h!(c20_match_bytes_p3_n3, 3, 3, Alpha::Bytes, 22);
    h!(c20_match_small_p7_n7, 7, 7, Alpha::Small, 74);
    h!(c20_match_small_p8_n8, 8, 8, Alpha::Small, 92);
    h!(c20_match_ascii_p5_n5, 5, 5, Alpha::Ascii, 44);
    h!(c20_match_ascii_p6_n6, 6, 6, Alpha::Ascii, 58);
    h!(c20_match_ascii_p7_n7, 7, 7, Alpha::Ascii, 74);
    h!(c20_match_bytes_p5_n5, 5, 5, Alpha::Bytes, 44);
    h!(c20_match_small_p10_n10, 10, 10, Alpha::Small, 124);
    h!(c20_match_ascii_p8_n8, 8, 8, Alpha::Ascii, 92);
    h!(c20_match_ascii_p4_n10, 4, 10, Alpha::Ascii, 64);
    h!(c20_match_ascii_p10_n4, 10, 4, Alpha::Ascii, 64);
    h!(c20_match_bytes_p7_n7, 7, 7, Alpha::Bytes, 74);

    /// Degenerate and tiny sizes, every 7-bit byte: P in 0..=2, N in 0..=2 (empty pattern matches only the empty
    /// input; `PatternSet::new` refuses empty patterns, the matcher itself is total on them).
    #[kani::proof]
    #[kani::unwind(12)]
    fn c20_match_ascii_sizes_0_to_2() {
        check::<0, 0>(Alpha::Ascii);
        check::<0, 1>(Alpha::Ascii);
        check::<0, 2>(Alpha::Ascii);
        check::<1, 0>(Alpha::Ascii);
        check::<1, 1>(Alpha::Ascii);
        check::<1, 2>(Alpha::Ascii);
        check::<2, 0>(Alpha::Ascii);
        check::<2, 1>(Alpha::Ascii);
        check::<2, 2>(Alpha::Ascii);
        kani::cover!(true);
    }
}

// C20, policy JSON: a single attempt on concrete values (serde_json + String on the heap; nothing symbolic).
// MEASURED: c20_json_finding_one_star_decodes_as_wildcard: symbolic execution not finished after 420 s (no verdict);
// this half of C20 is OUT for Kani (the defect itself is visible by reading: visit_str maps "*" to Wildcard).
mod verif_kani_model {
    use crate::model::{Effect, OneOrMore, WildcardOneOrMore};

    fn naive_memchr(x: u8, text: &[u8]) -> Option<usize> {
        let mut i = 0;
        while i < text.len() {
            if text[i] == x {
                return Some(i);
            }
            i += 1;
        }
        None
    }

    fn cpuid_zero(_leaf: u32, _sub: u32) -> core::arch::x86_64::CpuidResult {
        core::arch::x86_64::CpuidResult { eax: 0, ebx: 0, ecx: 0, edx: 0 }
    }

    /// FINDING json_one_star (C20 "every policy document value survives JSON encoding and decoding unchanged,
    /// single values and one-element forms are kept distinct"): `WildcardOneOrMore::One("*")` is encoded as the
    /// JSON string "*" and decoded as `WildcardOneOrMore::Wildcard`, a different value.  Expected to FAIL.
    #[kani::proof]
    #[kani::unwind(8)]
    #[kani::stub(core::slice::memchr::memchr, naive_memchr)]
    #[kani::stub(core::arch::x86_64::__cpuid_count, cpuid_zero)]
    fn c20_json_finding_one_star_decodes_as_wildcard() {
        let v: WildcardOneOrMore<String> = WildcardOneOrMore::One("*".to_owned());
        let text = match serde_json::to_string(&v) {
            Ok(t) => t,
            Err(_) => panic!("encoding failed"),
        };
        let back: Result<WildcardOneOrMore<String>, _> = serde_json::from_str(&text);
        let same = match &back {
            Ok(WildcardOneOrMore::One(s)) => s.len() == 1 && s.as_bytes()[0] == b'*',
            _ => false,
        };
        core::mem::forget(back);
        core::mem::forget(text);
        core::mem::forget(v);
        kani::cover!(true);
        assert!(same, "One(\"*\") does not survive JSON encoding and decoding");
    }

    /// Effect: "Allow" / "Deny" decode to the two values, "allow" (unknown effect) is refused.
    #[kani::proof]
    #[kani::unwind(8)]
    #[kani::stub(core::slice::memchr::memchr, naive_memchr)]
    #[kani::stub(core::arch::x86_64::__cpuid_count, cpuid_zero)]
    fn c20_json_effect_concrete() {
        let a: Result<Effect, _> = serde_json::from_str("\"Allow\"");
        assert!(matches!(&a, Ok(Effect::Allow)));
        core::mem::forget(a);
        let d: Result<Effect, _> = serde_json::from_str("\"Deny\"");
        assert!(matches!(&d, Ok(Effect::Deny)));
        core::mem::forget(d);
        let x: Result<Effect, _> = serde_json::from_str("\"allow\"");
        assert!(x.is_err());
        core::mem::forget(x);
        kani::cover!(true);
    }

    /// OneOrMore: "a" decodes to One("a") and ["a"] to More(["a"]) (kept distinct as written).
    #[kani::proof]
    #[kani::unwind(8)]
    #[kani::stub(core::slice::memchr::memchr, naive_memchr)]
    #[kani::stub(core::arch::x86_64::__cpuid_count, cpuid_zero)]
    fn c20_json_one_vs_list_concrete() {
        let a: Result<OneOrMore<String>, _> = serde_json::from_str("\"a\"");
        assert!(matches!(&a, Ok(OneOrMore::One(s)) if s.len() == 1 && s.as_bytes()[0] == b'a'));
        core::mem::forget(a);
        let b: Result<OneOrMore<String>, _> = serde_json::from_str("[\"a\"]");
        assert!(matches!(&b, Ok(OneOrMore::More(v)) if v.len() == 1 && v[0].len() == 1 && v[0].as_bytes()[0] == b'a'));
        core::mem::forget(b);
        kani::cover!(true);
    }
}
