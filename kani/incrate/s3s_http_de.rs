// in-crate Kani harnesses included into the real crate under cfg(kani) (see MANIFEST.hooks)
// C02 (leaves): http/de.rs — `impl TryFromHeaderValue for bool / i32 / i64 / String`.
//
// Property excerpt: "a value that is not of the member's type ... yields a client error instead of a defaulted,
// merged or truncated input."
//
// References are written from the Smithy HTTP binding rules for header members (integer / long: a decimal
// number, i.e. an optional '-' followed by one or more digits and nothing else; boolean: `true` / `false`;
// string: the header text as sent), not from the implementation.
//
// Alphabet of the symbolic integer header bytes: { '0', '1', '9', '-', '+', ' ', 'a', 't' }.
// Boolean / string header bytes: every byte a `HeaderValue` can hold (HTAB, 0x20..=0x7e, 0x80..=0xff).
pub(crate) mod verif_kani_de {
    use super::*;
    use core::mem::forget;

    fn assume_int_alphabet(b: &[u8]) {
        let mut i = 0;
        while i < b.len() {
            let c = b[i];
            kani::assume(
                c == b'0' || c == b'1' || c == b'9' || c == b'-' || c == b'+' || c == b' ' || c == b'a' || c == b't',
            );
            i += 1;
        }
    }

    /// bytes accepted by `HeaderValue::from_bytes` (RFC 9110 field-content incl. obs-text)
    fn assume_field_bytes(b: &[u8]) {
        let mut i = 0;
        while i < b.len() {
            let c = b[i];
            kani::assume(c == b'\t' || (c >= 0x20 && c != 0x7f));
            i += 1;
        }
    }

    fn is_digit(c: u8) -> bool {
        c >= b'0' && c <= b'9'
    }

    /// Reference: strict decimal `-?[0-9]+` (no '+', no blanks, no trailing text); the denoted number
    /// (at most 4 digits here, so it fits every integer type).  The loop runs over constant indices so that
    /// CBMC unwinds it exactly.
    fn ref_decimal(b: &[u8]) -> Option<i64> {
        let n = b.len();
        let neg = n > 0 && b[0] == b'-';
        let start = if neg { 1 } else { 0 };
        if start >= n {
            return None;
        }
        let mut v: i64 = 0;
        let mut all_digits = true;
        let mut i = 0;
        while i < n {
            if i >= start {
                if is_digit(b[i]) {
                    v = v * 10 + (b[i] - b'0') as i64;
                } else {
                    all_digits = false;
                }
            }
            i += 1;
        }
        if !all_digits {
            return None;
        }
        Some(if neg { -v } else { v })
    }

    // ----------------------------------------------------------------------------------------------
    // i32 / i64
    // ----------------------------------------------------------------------------------------------

    /// every header text of N bytes over the alphabet (nothing excluded): accepted iff strict decimal, and then
    /// with the denoted value.  (Before the fix d76c398 the texts that begin with a sign or a digit without being
    /// a decimal integer had to be excluded; they are kept as regression harnesses c02_finding_header_int_*.)
    fn int32<const N: usize>() {
        let b: [u8; N] = kani::any();
        assume_int_alphabet(&b);
        let want = ref_decimal(&b);
        let hv = HeaderValue::from_bytes(&b).unwrap();
        let got = <i32 as TryFromHeaderValue>::try_from_header_value(&hv);
        match (&got, want) {
            (Ok(g), Some(w)) => assert!(*g as i64 == w, "the integer differs from the number sent"),
            (Err(_), None) => {}
            (Ok(_), None) => panic!("a text that is not a decimal integer is accepted"),
            (Err(_), Some(_)) => panic!("a decimal integer is refused"),
        }
        kani::cover!(got.is_ok());
        kani::cover!(got.is_err());
        forget(hv);
    }

    fn int64<const N: usize>() {
        let b: [u8; N] = kani::any();
        assume_int_alphabet(&b);
        let want = ref_decimal(&b);
        let hv = HeaderValue::from_bytes(&b).unwrap();
        let got = <i64 as TryFromHeaderValue>::try_from_header_value(&hv);
        match (&got, want) {
            (Ok(g), Some(w)) => assert!(*g == w, "the long differs from the number sent"),
            (Err(_), None) => {}
            (Ok(_), None) => panic!("a text that is not a decimal integer is accepted"),
            (Err(_), Some(_)) => panic!("a decimal integer is refused"),
        }
        kani::cover!(got.is_ok());
        kani::cover!(got.is_err());
        forget(hv);
    }

    // (harnesses are written out as plain functions: the runner's native playback locates `fn <name>(` here)
    // unwind: atoi's digit-count loops (`max_num_digits*`) run 10 times for i32 and 19 times for i64, `nth(10)`
    // 10 times; its scanning loops start at a symbolic index (0 or 1 after the sign), so CBMC unwinds them up
    // to the bound whatever the text length is — the bound is kept as small as the digit-count loops allow.
    #[kani::proof]
    #[kani::unwind(12)]
    pub(crate) fn c02_header_i32_1() {
        int32::<1>();
    }
    #[kani::proof]
    #[kani::unwind(12)]
    pub(crate) fn c02_header_i32_2() {
        int32::<2>();
    }
    #[kani::proof]
    #[kani::unwind(12)]
    pub(crate) fn c02_header_i32_3() {
        int32::<3>();
    }
    #[kani::proof]
    #[kani::unwind(12)]
    pub(crate) fn c02_header_i32_4() {
        int32::<4>();
    }
    #[kani::proof]
    #[kani::unwind(21)]
    pub(crate) fn c02_header_i64_1() {
        int64::<1>();
    }
    #[kani::proof]
    #[kani::unwind(21)]
    pub(crate) fn c02_header_i64_2() {
        int64::<2>();
    }
    #[kani::proof]
    #[kani::unwind(21)]
    pub(crate) fn c02_header_i64_3() {
        int64::<3>();
    }
    #[kani::proof]
    #[kani::unwind(21)]
    pub(crate) fn c02_header_i64_4() {
        int64::<4>();
    }

    /// FINDING header_int_prefix_accepted: "12a" is not an integer, the property demands a client error
    #[kani::proof]
    #[kani::unwind(12)]
    pub(crate) fn c02_finding_header_int_prefix_accepted_i32() {
        let hv = HeaderValue::from_static("12a");
        let got = <i32 as TryFromHeaderValue>::try_from_header_value(&hv);
        assert!(got.is_err(), "\"12a\" is accepted as an integer header value (truncated to its numeric prefix)");
        kani::cover!(true);
        forget(hv);
    }

    /// FINDING header_int_prefix_accepted (same parser, the other lenient spelling): "+5" is not a Smithy
    /// decimal integer
    #[kani::proof]
    #[kani::unwind(21)]
    pub(crate) fn c02_finding_header_int_prefix_accepted_i64_plus() {
        let hv = HeaderValue::from_static("+5");
        let got = <i64 as TryFromHeaderValue>::try_from_header_value(&hv);
        assert!(got.is_err(), "\"+5\" is accepted as a long header value");
        kani::cover!(true);
        forget(hv);
    }

    /// FINDING header_int_sign_only_accepted: "-" contains no digit at all, the property demands a client error;
    /// atoi reports one consumed byte (the sign) and the value 0, i.e. a DEFAULTED input
    #[kani::proof]
    #[kani::unwind(12)]
    pub(crate) fn c02_finding_header_int_sign_only_accepted_i32() {
        let hv = HeaderValue::from_static("-");
        let got = <i32 as TryFromHeaderValue>::try_from_header_value(&hv);
        assert!(got.is_err(), "\"-\" is accepted as an integer header value (as 0)");
        kani::cover!(true);
        forget(hv);
    }

    /// FINDING header_int_sign_only_accepted (long, sign followed by text): "+a"
    #[kani::proof]
    #[kani::unwind(21)]
    pub(crate) fn c02_finding_header_int_sign_only_accepted_i64() {
        let hv = HeaderValue::from_static("+a");
        let got = <i64 as TryFromHeaderValue>::try_from_header_value(&hv);
        assert!(got.is_err(), "\"+a\" is accepted as a long header value (as 0)");
        kani::cover!(true);
        forget(hv);
    }

    /// FINDING header_int_prefix_accepted, symbolic form: some 3-byte text over the alphabet that is not a
    /// decimal integer is accepted (Kani produces the witness)
    #[kani::proof]
    #[kani::unwind(12)]
    pub(crate) fn c02_finding_header_int_prefix_accepted_any3() {
        let b: [u8; 3] = kani::any();
        assume_int_alphabet(&b);
        let want = ref_decimal(&b);
        let hv = HeaderValue::from_bytes(&b).unwrap();
        let got = <i32 as TryFromHeaderValue>::try_from_header_value(&hv);
        assert!(want.is_some() || got.is_err(), "a text that is not a decimal integer is accepted");
        kani::cover!(true);
        forget(hv);
    }

    // ----------------------------------------------------------------------------------------------
    // bool
    // ----------------------------------------------------------------------------------------------

    fn is_text(b: &[u8], t: &[u8]) -> bool {
        if b.len() != t.len() {
            return false;
        }
        let mut i = 0;
        while i < t.len() {
            if b[i] != t[i] {
                return false;
            }
            i += 1;
        }
        true
    }

    /// every header text of N bytes (any field byte) except the two capitalised spellings "True" / "False"
    /// (tolerated leniency, see c02_header_bool_capitalised): accepted iff exactly "true" / "false"
    fn boolean<const N: usize>() {
        let b: [u8; N] = kani::any();
        assume_field_bytes(&b);
        kani::assume(!is_text(&b, b"True") && !is_text(&b, b"False"));
        let hv = HeaderValue::from_bytes(&b).unwrap();
        let got = <bool as TryFromHeaderValue>::try_from_header_value(&hv);
        let want = if is_text(&b, b"true") {
            Some(true)
        } else if is_text(&b, b"false") {
            Some(false)
        } else {
            None
        };
        match (&got, want) {
            (Ok(g), Some(w)) => assert!(*g == w, "the boolean is inverted"),
            (Err(_), None) => {}
            (Ok(_), None) => panic!("a text that is not a boolean is accepted"),
            (Err(_), Some(_)) => panic!("a boolean is refused"),
        }
        kani::cover!(N < 4 || N > 5 || got.is_ok());
        kani::cover!(got.is_err());
        forget(hv);
    }

    #[kani::proof]
    #[kani::unwind(8)]
    pub(crate) fn c02_header_bool_1() {
        boolean::<1>();
    }
    #[kani::proof]
    #[kani::unwind(8)]
    pub(crate) fn c02_header_bool_2() {
        boolean::<2>();
    }
    #[kani::proof]
    #[kani::unwind(8)]
    pub(crate) fn c02_header_bool_3() {
        boolean::<3>();
    }
    #[kani::proof]
    #[kani::unwind(8)]
    pub(crate) fn c02_header_bool_4() {
        boolean::<4>();
    }
    #[kani::proof]
    #[kani::unwind(8)]
    pub(crate) fn c02_header_bool_5() {
        boolean::<5>();
    }
    #[kani::proof]
    #[kani::unwind(8)]
    pub(crate) fn c02_header_bool_6() {
        boolean::<6>();
    }

    /// observation (not a defect of the property: nothing is defaulted, merged or truncated): the capitalised
    /// spellings are accepted with the boolean they spell
    #[kani::proof]
    #[kani::unwind(8)]
    pub(crate) fn c02_header_bool_capitalised() {
        let t = HeaderValue::from_static("True");
        let f = HeaderValue::from_static("False");
        assert!(matches!(<bool as TryFromHeaderValue>::try_from_header_value(&t), Ok(true)));
        assert!(matches!(<bool as TryFromHeaderValue>::try_from_header_value(&f), Ok(false)));
        kani::cover!(true);
        forget(t);
        forget(f);
    }

    // ----------------------------------------------------------------------------------------------
    // String
    // ----------------------------------------------------------------------------------------------

    /// every header value of N field bytes: the string member is exactly the text sent; values with bytes
    /// outside ASCII (obs-text) are refused
    fn string<const N: usize>() {
        let b: [u8; N] = kani::any();
        assume_field_bytes(&b);
        let hv = HeaderValue::from_bytes(&b).unwrap();
        let got = <String as TryFromHeaderValue>::try_from_header_value(&hv);
        let mut ascii = true;
        let mut i = 0;
        while i < N {
            if b[i] >= 0x80 {
                ascii = false;
            }
            i += 1;
        }
        match &got {
            Ok(s) => {
                assert!(ascii, "a value that is not text is accepted as a string");
                let t = s.as_bytes();
                assert!(t.len() == N, "the string is shorter or longer than the text sent");
                let mut i = 0;
                while i < N {
                    assert!(t[i] == b[i], "the string differs from the text sent");
                    i += 1;
                }
            }
            Err(_) => assert!(!ascii, "a text value is refused"),
        }
        kani::cover!(got.is_ok());
        kani::cover!(got.is_err());
        forget(got);
        forget(hv);
    }

    #[kani::proof]
    #[kani::unwind(6)]
    pub(crate) fn c02_header_string_1() {
        string::<1>();
    }
    #[kani::proof]
    #[kani::unwind(6)]
    pub(crate) fn c02_header_string_2() {
        string::<2>();
    }
    #[kani::proof]
    #[kani::unwind(6)]
    pub(crate) fn c02_header_string_3() {
        string::<3>();
    }
    #[kani::proof]
    #[kani::unwind(6)]
    pub(crate) fn c02_header_string_4() {
        string::<4>();
    }
}
