// in-crate Kani harnesses included into the real crate under cfg(kani) (see MANIFEST.hooks)
// C17: fs.rs — path computation of the file-system backend (`FileSystem::get_object_path`, `get_bucket_path`,
// `resolve_abs_path`; path-absolutize 3.1.1 / path-dedot 3.1.1 / std::path compiled, not modelled).
//
// Property: "The file-system backend never reads, creates, modifies or deletes anything outside its configured
// root directory, and an operation addressed to one bucket never touches another bucket's objects or the
// backend's own bookkeeping files - for every bucket name, key, copy source and upload id, including keys
// containing '..', absolute paths, empty or repeated separators ..."  Only the path COMPUTATION is in reach of
// this technique (the std::fs / tokio::fs calls are not).
//
// Set-up: `FileSystem { root: "/r", .. }` built by struct literal (`FileSystem::new` touches the real file
// system), buckets "bk" / "b2".
//
// MEASURED LIMIT (Kani 0.68 / CBMC 6.11, 10 GB cap): a SYMBOLIC key does not fit.  `get_object_path("bk", k)` with
// k = 2 symbolic bytes over {'a', '.', '/'} (first byte not '/', unwind 7, UTF-8 validator stubbed): symex 901 s,
// then out of memory at 10 GB while converting SSA; with unwind 12 and 2 / 4 symbolic bytes: still in symex
// after 8 min at 3.6 GB; 2 bytes symbolic over {'a', '.'} only (no separator): > 15 min in symex at 5.8 GB, aborted.
// (All of these were measured WITH Kani's assertion reachability checks, see the note further down; symex
// time does not depend on them.)  One fully CONCRETE key costs 8 s symex / 2.4 M SAT variables (heap PathBuf /
// Vec<&OsStr> / OsString / once_cell), each further key in the same harness +6 s / +1.2 M variables.
// The harnesses below therefore ENUMERATE concrete keys (every key of length 1 and 2 over {'a', '.', '/'} and a
// selection of longer ones); they are bounded-exhaustive executions of the compiled code, not symbolic proofs.
//
// Bookkeeping names (from fs.rs): `.bucket-<b64>.object-<b64>[.upload-<uuid>].metadata.json`,
// `.bucket-<b64>.object-<b64>.internal.json`, `.upload_id-<uuid>.part-<n>`, `.upload-<uuid>.json`,
// `.tmp.<n>.internal.part` — all DIRECT children of the root whose name begins with '.'; a valid bucket name
// begins with a letter or digit, so bucket directories and bookkeeping files cannot collide, and an object path
// that lies strictly below `/r/<bucket>/` is never a bookkeeping file.  Exact predicate used: the path is a
// direct child of the root and its name starts with ".bucket-", ".upload_id-", ".upload-" or ".tmp.".
pub(crate) mod verif_kani_fs {
    use super::*;
    use core::mem::forget;

    // ---------------------------------------------------------------------------------------------
    // stubs (each one is listed in the spec file)
    // ---------------------------------------------------------------------------------------------

    /// `std::env::current_dir` (path-absolutize / path-dedot read it unconditionally; it only matters for
    /// paths that begin with "." or "..", which `<bucket>/<key>` and absolute keys never do).  A directory
    /// different from the root, so that a leak of the cwd into a result would be visible.
    fn fixed_cwd() -> std::io::Result<PathBuf> {
        Ok(PathBuf::from("/w"))
    }

    /// `crate::error::log`: without the `binary` feature it is `if false { .. }`, but the dead branch reaches
    /// tracing / tracing-error (kani-compiler ICE).  Behaviour-preserving for the library build.
    fn no_log(_source: &dyn std::error::Error) {}

    /// `std::thread::current::current`: only caller is once_cell's slow path `imp::wait` (another thread is
    /// initialising path-dedot's `MAIN_SEPARATOR` Lazy); it pulls in the TLS destructor machinery
    /// (`std::rt::thread_cleanup` -> `catch_unwind`, kani-compiler ICE intrinsics.rs:243).  Never executed in a
    /// single-threaded harness; reaching it fails the harness, so the stub is sound.
    fn no_current_thread() -> std::thread::Thread {
        panic!("verif: thread::current() reached in a single-threaded harness")
    }

    fn fs_root() -> FileSystem {
        FileSystem {
            root: PathBuf::from("/r"),
            tmp_file_counter: AtomicU64::new(0),
        }
    }

    // ---------------------------------------------------------------------------------------------
    // reference predicates on the text of a result (written from the property, not from the code)
    // ---------------------------------------------------------------------------------------------

    /// component-wise prefix test on a path text: `p` == `dir`, or `p` starts with `dir` + "/"
    fn at_or_under(p: &[u8], dir: &[u8]) -> bool {
        if p.len() < dir.len() {
            return false;
        }
        let mut i = 0;
        while i < dir.len() {
            if p[i] != dir[i] {
                return false;
            }
            i += 1;
        }
        p.len() == dir.len() || p[dir.len()] == b'/'
    }

    /// some component of the path text is ".." (a textual prefix test would then say nothing)
    fn has_dotdot_component(p: &[u8]) -> bool {
        let n = p.len();
        let mut i = 0;
        while i + 1 < n {
            if p[i] == b'.' && p[i + 1] == b'.' && (i == 0 || p[i - 1] == b'/') && (i + 2 == n || p[i + 2] == b'/') {
                return true;
            }
            i += 1;
        }
        false
    }

    fn starts_with_at(p: &[u8], at: usize, t: &[u8]) -> bool {
        if p.len() < at + t.len() {
            return false;
        }
        let mut i = 0;
        while i < t.len() {
            if p[at + i] != t[i] {
                return false;
            }
            i += 1;
        }
        true
    }

    /// the path is one of the backend's bookkeeping files: a direct child of "/r" whose name starts with
    /// ".bucket-", ".upload_id-", ".upload-" or ".tmp."
    fn is_bookkeeping(p: &[u8]) -> bool {
        if !starts_with_at(p, 0, b"/r/") {
            return false;
        }
        let mut i = 3;
        while i < p.len() {
            if p[i] == b'/' {
                return false; // not a direct child
            }
            i += 1;
        }
        starts_with_at(p, 3, b".bucket-")
            || starts_with_at(p, 3, b".upload_id-")
            || starts_with_at(p, 3, b".upload-")
            || starts_with_at(p, 3, b".tmp.")
    }

    /// confinement to the root: strictly below "/r", no ".." left in the text
    fn confined_to_root(p: &[u8]) -> bool {
        at_or_under(p, b"/r") && p.len() > 3 && !has_dotdot_component(p)
    }

    /// confinement to the bucket: STRICTLY below the bucket directory (an object is not the directory itself),
    /// and hence neither the root, another bucket's directory nor a bookkeeping file
    fn confined_to_bucket(p: &[u8], bucket_dir: &[u8]) -> bool {
        confined_to_root(p) && at_or_under(p, bucket_dir) && p.len() > bucket_dir.len() + 1 && !is_bookkeeping(p)
    }

    /// `get_object_path(bucket, key)` is an error, or its result is confined to the bucket directory
    fn object_path_in_bucket(fs: &FileSystem, bucket: &str, bucket_dir: &[u8], key: &str) -> bool {
        let r = fs.get_object_path(bucket, key);
        let ok = match &r {
            Ok(p) => confined_to_bucket(p.as_os_str().as_encoded_bytes(), bucket_dir),
            Err(_) => true,
        };
        forget(r);
        ok
    }

    fn path_is(r: &Result<PathBuf>, want: &[u8]) -> bool {
        match r {
            Ok(p) => {
                let b = p.as_os_str().as_encoded_bytes();
                b.len() == want.len() && starts_with_at(b, 0, want)
            }
            Err(_) => false,
        }
    }

    /// `get_object_path(bucket, key)` is exactly `want`
    fn object_path_is(fs: &FileSystem, bucket: &str, key: &str, want: &[u8]) -> bool {
        let r = fs.get_object_path(bucket, key);
        let ok = path_is(&r, want);
        forget(r);
        ok
    }

    // Harnesses are written out as plain functions (the runner's native playback locates `fn <name>(` in this
    // file).  2 path computations per harness.
    //
    // RUN THESE WITH `--lib -Z unstable-options --no-assertion-reach-checks` (field "extra" of the spec file).
    // Measured: the runner always asks CBMC for traces (concrete playback); Kani's assertion reachability checks
    // are deliberately failing assertions, one per reachable check (~3000 here), and each gets a full trace of
    // this long execution.  kani-driver then needs 9-10 GB to read CBMC's final output (driver RSS 2.3 GB ->
    // 8.7-9.7 GB at the very end; eight of thirteen 2-4-call harnesses died at the 10 GB cap with "memory
    // allocation of .. bytes failed" AFTER cbmc had decided all properties, wherever `cover!(true)` was placed).
    // Without the reachability checks the same harness takes 51-57 s instead of 220-300 s and the driver stays
    // small.  Nothing is lost: the flag only changes how SUCCESS / UNREACHABLE is reported for passing checks;
    // the vacuity guard is the `cover!(true)` at the end of each harness.

    // ---------------------------------------------------------------------------------------------
    // bounded-exhaustive: every key of length 1 and 2 over {'a', '.', '/'} (nothing excluded), selected longer ones:
    // `get_object_path` is an error or a path STRICTLY below /r/<bucket>/ that is no bookkeeping file
    // ---------------------------------------------------------------------------------------------

    /// bucket "bk": key "a" maps to exactly /r/bk/a; key "." is an error or confined to /r/bk (strictly below)
    #[kani::proof]
    #[kani::unwind(12)]
    #[kani::stub(std::env::current_dir, fixed_cwd)]
    #[kani::stub(crate::error::log, no_log)]
    #[kani::stub(std::thread::current::current, no_current_thread)]
    pub(crate) fn c17_keys_len1_a() {
        let fs = fs_root();
        assert!(object_path_is(&fs, "bk", "a", b"/r/bk/a"), "the plain key does not map to <root>/<bucket>/<key>");
        assert!(object_path_in_bucket(&fs, "bk", b"/r/bk", "."));
        kani::cover!(true);
        forget(fs);
    }

    /// bucket "bk": key "/" is an error or confined to /r/bk; bucket "b2": key "a" maps to exactly /r/b2/a
    #[kani::proof]
    #[kani::unwind(12)]
    #[kani::stub(std::env::current_dir, fixed_cwd)]
    #[kani::stub(crate::error::log, no_log)]
    #[kani::stub(std::thread::current::current, no_current_thread)]
    pub(crate) fn c17_keys_len1_b() {
        let fs = fs_root();
        assert!(object_path_in_bucket(&fs, "bk", b"/r/bk", "/"));
        assert!(object_path_is(&fs, "b2", "a", b"/r/b2/a"), "the plain key does not map to <root>/<bucket>/<key>");
        kani::cover!(true);
        forget(fs);
    }

    /// bucket "bk", keys "aa", "a.": error or confined to /r/bk
    #[kani::proof]
    #[kani::unwind(12)]
    #[kani::stub(std::env::current_dir, fixed_cwd)]
    #[kani::stub(crate::error::log, no_log)]
    #[kani::stub(std::thread::current::current, no_current_thread)]
    pub(crate) fn c17_keys_len2_a() {
        let fs = fs_root();
        assert!(object_path_in_bucket(&fs, "bk", b"/r/bk", "aa"));
        assert!(object_path_in_bucket(&fs, "bk", b"/r/bk", "a."));
        kani::cover!(true);
        forget(fs);
    }

    /// bucket "bk", keys "a/", ".a": error or confined to /r/bk
    #[kani::proof]
    #[kani::unwind(12)]
    #[kani::stub(std::env::current_dir, fixed_cwd)]
    #[kani::stub(crate::error::log, no_log)]
    #[kani::stub(std::thread::current::current, no_current_thread)]
    pub(crate) fn c17_keys_len2_b() {
        let fs = fs_root();
        assert!(object_path_in_bucket(&fs, "bk", b"/r/bk", "a/"));
        assert!(object_path_in_bucket(&fs, "bk", b"/r/bk", ".a"));
        kani::cover!(true);
        forget(fs);
    }

    /// bucket "bk", keys "./", "/a": error or confined to /r/bk
    #[kani::proof]
    #[kani::unwind(12)]
    #[kani::stub(std::env::current_dir, fixed_cwd)]
    #[kani::stub(crate::error::log, no_log)]
    #[kani::stub(std::thread::current::current, no_current_thread)]
    pub(crate) fn c17_keys_len2_c() {
        let fs = fs_root();
        assert!(object_path_in_bucket(&fs, "bk", b"/r/bk", "./"));
        assert!(object_path_in_bucket(&fs, "bk", b"/r/bk", "/a"));
        kani::cover!(true);
        forget(fs);
    }

    /// bucket "bk", keys "/.", "//", "..": error or confined to /r/bk  (".." made path-dedot panic before the fix
    /// 44bbfd8, see c17_finding_fs_key_bucket_parent_panics)
    #[kani::proof]
    #[kani::unwind(12)]
    #[kani::stub(std::env::current_dir, fixed_cwd)]
    #[kani::stub(crate::error::log, no_log)]
    #[kani::stub(std::thread::current::current, no_current_thread)]
    pub(crate) fn c17_keys_len2_d() {
        let fs = fs_root();
        assert!(object_path_in_bucket(&fs, "bk", b"/r/bk", "/."));
        assert!(object_path_in_bucket(&fs, "bk", b"/r/bk", "//"));
        assert!(object_path_in_bucket(&fs, "bk", b"/r/bk", ".."));
        kani::cover!(true);
        forget(fs);
    }

    /// bucket "b2": key "." is an error or confined to /r/b2; the bucket directory is exactly /r/b2
    #[kani::proof]
    #[kani::unwind(12)]
    #[kani::stub(std::env::current_dir, fixed_cwd)]
    #[kani::stub(crate::error::log, no_log)]
    #[kani::stub(std::thread::current::current, no_current_thread)]
    pub(crate) fn c17_keys_b2() {
        let fs = fs_root();
        assert!(object_path_in_bucket(&fs, "b2", b"/r/b2", "."));
        let r = fs.get_bucket_path("b2");
        assert!(path_is(&r, b"/r/b2"), "the bucket directory is not <root>/<bucket>");
        forget(r);
        kani::cover!(true);
        forget(fs);
    }

    /// longer keys whose dots stay inside the bucket: "a/..", "./.a": error or confined to /r/bk
    #[kani::proof]
    #[kani::unwind(12)]
    #[kani::stub(std::env::current_dir, fixed_cwd)]
    #[kani::stub(crate::error::log, no_log)]
    #[kani::stub(std::thread::current::current, no_current_thread)]
    pub(crate) fn c17_keys_inner_dots_a() {
        let fs = fs_root();
        assert!(object_path_in_bucket(&fs, "bk", b"/r/bk", "a/.."));
        assert!(object_path_in_bucket(&fs, "bk", b"/r/bk", "./.a"));
        kani::cover!(true);
        forget(fs);
    }

    /// repeated separators / absolute key with dots: "a//a", "/../": error or confined to /r/bk
    #[kani::proof]
    #[kani::unwind(12)]
    #[kani::stub(std::env::current_dir, fixed_cwd)]
    #[kani::stub(crate::error::log, no_log)]
    #[kani::stub(std::thread::current::current, no_current_thread)]
    pub(crate) fn c17_keys_inner_dots_b() {
        let fs = fs_root();
        assert!(object_path_in_bucket(&fs, "bk", b"/r/bk", "a//a"));
        assert!(object_path_in_bucket(&fs, "bk", b"/r/bk", "/../"));
        kani::cover!(true);
        forget(fs);
    }

    /// keys that climb out of the bucket: "../a", "../../a" are errors or confined to /r/bk (full bucket
    /// confinement since the fix 44bbfd8; before it only confinement to the root held)
    #[kani::proof]
    #[kani::unwind(14)]
    #[kani::stub(std::env::current_dir, fixed_cwd)]
    #[kani::stub(crate::error::log, no_log)]
    #[kani::stub(std::thread::current::current, no_current_thread)]
    pub(crate) fn c17_keys_climbing_a() {
        let fs = fs_root();
        assert!(object_path_in_bucket(&fs, "bk", b"/r/bk", "../a"));
        assert!(object_path_in_bucket(&fs, "bk", b"/r/bk", "../../a"));
        kani::cover!(true);
        forget(fs);
    }

    /// keys that climb out of the bucket: "a/../../a", ".././a" are errors or confined to /r/bk
    #[kani::proof]
    #[kani::unwind(14)]
    #[kani::stub(std::env::current_dir, fixed_cwd)]
    #[kani::stub(crate::error::log, no_log)]
    #[kani::stub(std::thread::current::current, no_current_thread)]
    pub(crate) fn c17_keys_climbing_b() {
        let fs = fs_root();
        assert!(object_path_in_bucket(&fs, "bk", b"/r/bk", "a/../../a"));
        assert!(object_path_in_bucket(&fs, "bk", b"/r/bk", ".././a"));
        kani::cover!(true);
        forget(fs);
    }

    // ---------------------------------------------------------------------------------------------
    // findings
    // ---------------------------------------------------------------------------------------------

    /// FINDING fs_key_crosses_bucket: bucket "bk", key "../b2/x" must be refused or stay below /r/bk
    /// (the virtual root confines to /r only: the result is /r/b2/x, an object of bucket "b2")
    #[kani::proof]
    #[kani::unwind(14)]
    #[kani::stub(std::env::current_dir, fixed_cwd)]
    #[kani::stub(crate::error::log, no_log)]
    #[kani::stub(std::thread::current::current, no_current_thread)]
    pub(crate) fn c17_finding_fs_key_crosses_bucket() {
        let fs = fs_root();
        let r = fs.get_object_path("bk", "../b2/x");
        let ok = match &r {
            Ok(p) => confined_to_bucket(p.as_os_str().as_encoded_bytes(), b"/r/bk"),
            Err(_) => true,
        };
        assert!(ok, "key \"../b2/x\" of bucket \"bk\" resolves outside /r/bk");
        kani::cover!(true);
        forget(r);
        forget(fs);
    }

    /// FINDING fs_key_crosses_bucket (bookkeeping witness): bucket "bk", key "../.tmp.0.internal.part" is the
    /// backend's own temporary file of the first write (`prepare_file_write`, counter 0)
    #[kani::proof]
    #[kani::unwind(30)]
    #[kani::stub(std::env::current_dir, fixed_cwd)]
    #[kani::stub(crate::error::log, no_log)]
    #[kani::stub(std::thread::current::current, no_current_thread)]
    pub(crate) fn c17_finding_fs_key_crosses_bucket_bookkeeping() {
        let fs = fs_root();
        let r = fs.get_object_path("bk", "../.tmp.0.internal.part");
        let ok = match &r {
            Ok(p) => !is_bookkeeping(p.as_os_str().as_encoded_bytes()),
            Err(_) => true,
        };
        assert!(ok, "key \"../.tmp.0.internal.part\" of bucket \"bk\" resolves to a bookkeeping file");
        kani::cover!(true);
        forget(r);
        forget(fs);
    }

    /// FINDING fs_key_crosses_bucket (absolute-key witness): bucket "bk", key "/r/b2/x" (an absolute path below
    /// the root replaces the bucket prefix in `Path::join`) must be refused or stay below /r/bk
    #[kani::proof]
    #[kani::unwind(14)]
    #[kani::stub(std::env::current_dir, fixed_cwd)]
    #[kani::stub(crate::error::log, no_log)]
    #[kani::stub(std::thread::current::current, no_current_thread)]
    pub(crate) fn c17_finding_fs_key_crosses_bucket_absolute() {
        let fs = fs_root();
        let r = fs.get_object_path("bk", "/r/b2/x");
        let ok = match &r {
            Ok(p) => confined_to_bucket(p.as_os_str().as_encoded_bytes(), b"/r/bk"),
            Err(_) => true,
        };
        assert!(ok, "key \"/r/b2/x\" of bucket \"bk\" resolves outside /r/bk");
        kani::cover!(true);
        forget(r);
        forget(fs);
    }

    /// FINDING fs_key_crosses_bucket (root witness): bucket "bk", key "/r" yields the root directory itself
    #[kani::proof]
    #[kani::unwind(12)]
    #[kani::stub(std::env::current_dir, fixed_cwd)]
    #[kani::stub(crate::error::log, no_log)]
    #[kani::stub(std::thread::current::current, no_current_thread)]
    pub(crate) fn c17_finding_fs_key_is_root() {
        let fs = fs_root();
        let r = fs.get_object_path("bk", "/r");
        let ok = match &r {
            Ok(p) => confined_to_root(p.as_os_str().as_encoded_bytes()),
            Err(_) => true,
        };
        assert!(ok, "key \"/r\" of bucket \"bk\" resolves to the root directory itself");
        kani::cover!(true);
        forget(r);
        forget(fs);
    }

    /// FINDING fs_key_bucket_parent_panics: bucket "bk", key ".." — `<bucket>/..` normalises to the empty path;
    /// path-dedot then fails `debug_assert!(tokens_length > 0)` (release: `tokens_length - 1` wraps and
    /// `OsString::with_capacity` panics).  The property demands an error (or a confined path), not a panic in
    /// the request handler.
    #[kani::proof]
    #[kani::unwind(12)]
    #[kani::stub(std::env::current_dir, fixed_cwd)]
    #[kani::stub(crate::error::log, no_log)]
    #[kani::stub(std::thread::current::current, no_current_thread)]
    pub(crate) fn c17_finding_fs_key_bucket_parent_panics() {
        let fs = fs_root();
        let r = fs.get_object_path("bk", "..");
        kani::cover!(true);
        forget(r);
        forget(fs);
    }
}
