// in-crate Kani harnesses included into the real crate under cfg(kani) (see MANIFEST.hooks)
// C06 / C11: the time windows of presigned URLs, driven through the real
// `SignatureContext::v4_check_presigned_url` / `v2_check_presigned_url` with `auth: None` (the functions return
// `NotImplemented` from `require_auth` right after the window test, before any secret lookup or crypto).
mod verif_kani_window {
    use super::*;
    use core::sync::atomic::{AtomicU32, Ordering::Relaxed};
    use std::future::Future;
    use std::task::{Context, Poll, Waker};

    // ---- stubs -----------------------------------------------------------------------------------------------
    pub(crate) fn tr_interest(_c: &'static tracing::callsite::DefaultCallsite) -> tracing::subscriber::Interest {
        tracing::subscriber::Interest::never()
    }
    pub(crate) fn tr_is_enabled(_m: &tracing::Metadata<'static>, _i: tracing::subscriber::Interest) -> bool {
        false
    }
    pub(crate) fn tr_dispatch<'a>(_m: &'static tracing::Metadata<'static>, _f: &'a tracing::field::ValueSet<'_>)
    where
        'a: 'a,
    {
    }
    pub(crate) fn tr_span_new(_m: &'static tracing::Metadata<'static>, _v: &tracing::field::ValueSet<'_>) -> tracing::Span {
        tracing::Span::none()
    }
    pub(crate) fn fmt_stub(_a: core::fmt::Arguments<'_>) -> String {
        String::new()
    }
    /// `is_sha256_checksum` (64-byte lowercase-hex test of X-Amz-Signature) -> true: the signature text of the window
    /// harnesses is a concrete well-formed digest; the real loop would force the global unwind bound to 66.
    pub(crate) fn sha_shape_ok(_s: &str) -> bool {
        true
    }
    pub(crate) fn utf8_ok(_v: &[u8]) -> Result<(), core::str::Utf8Error> {
        Ok(())
    }
    pub(crate) fn naive_memchr(x: u8, text: &[u8]) -> Option<usize> {
        let mut i = 0;
        while i < text.len() {
            if text[i] == x {
                return Some(i);
            }
            i += 1;
        }
        None
    }
    pub(crate) fn cpuid_zero(_leaf: u32, _sub: u32) -> core::arch::x86_64::CpuidResult {
        core::arch::x86_64::CpuidResult { eax: 0, ebx: 0, ecx: 0, edx: 0 }
    }

    /// The server clock (`time::OffsetDateTime::now_utc`) is an environment input: the harness chooses
    /// month (April/May/June 2013), day, hour, minute, second, nanosecond and the stub builds the instant from them.
    static N_MON: AtomicU32 = AtomicU32::new(5);
    static N_DAY: AtomicU32 = AtomicU32::new(1);
    static N_H: AtomicU32 = AtomicU32::new(0);
    static N_M: AtomicU32 = AtomicU32::new(0);
    static N_S: AtomicU32 = AtomicU32::new(0);
    static N_NS: AtomicU32 = AtomicU32::new(0);

    pub(crate) fn now_stub() -> time::OffsetDateTime {
        let mon = match N_MON.load(Relaxed) {
            4 => time::Month::April,
            5 => time::Month::May,
            _ => time::Month::June,
        };
        let d = time::Date::from_calendar_date(2013, mon, N_DAY.load(Relaxed) as u8).ok().unwrap();
        let t = d
            .with_hms_nano(N_H.load(Relaxed) as u8, N_M.load(Relaxed) as u8, N_S.load(Relaxed) as u8, N_NS.load(Relaxed))
            .ok()
            .unwrap();
        t.assume_utc()
    }

    /// Chooses an arbitrary server time in April..June 2013 (`months`) or in May 2013 and returns it as (whole seconds
    /// relative to 2013-05-01T00:00:00Z, nanoseconds) — reference arithmetic: April has 30 days, May 31.
    fn any_now(months: bool, days: (u32, u32), hours: (u32, u32)) -> (i64, u32) {
        let mon: u32 = if months { kani::any() } else { 5 };
        kani::assume(mon >= 4 && mon <= 6);
        let (day, h, m, s, ns): (u32, u32, u32, u32, u32) = (kani::any(), kani::any(), kani::any(), kani::any(), kani::any());
        let dim = if mon == 5 { 31 } else { 30 };
        kani::assume(day >= 1 && day <= dim && h < 24 && m < 60 && s < 60 && ns < 1_000_000_000);
        kani::assume(day >= days.0 && day <= days.1 && h >= hours.0 && h <= hours.1);
        if hours.0 == hours.1 {
            // smallest configuration: sub-second part restricted to the three values that matter at a boundary
            kani::assume(ns == 0 || ns == 1 || ns == 999_999_999);
        }
        N_MON.store(mon, Relaxed);
        N_DAY.store(day, Relaxed);
        N_H.store(h, Relaxed);
        N_M.store(m, Relaxed);
        N_S.store(s, Relaxed);
        N_NS.store(ns, Relaxed);
        let month_off: i64 = match mon {
            4 => -30,
            5 => 0,
            _ => 31,
        };
        let secs = (month_off + day as i64 - 1) * 86400 + (h * 3600 + m * 60 + s) as i64;
        (secs, ns)
    }

    fn owned(a: &str, b: &str) -> (String, String) {
        (String::from(a), String::from(b))
    }

    fn poll_ready<T>(fut: impl Future<Output = T>) -> T {
        let fut = core::pin::pin!(fut);
        let mut c = Context::from_waker(Waker::noop());
        match fut.poll(&mut c) {
            Poll::Ready(r) => r,
            Poll::Pending => panic!("pending before the window test"),
        }
    }

    #[derive(PartialEq, Eq, Clone, Copy)]
    enum Outcome {
        Malformed,  // InvalidRequest
        TooSkewed,  // RequestTimeTooSkewed
        Expired,    // AccessDenied
        PassedWindow, // NotImplemented "This service has no authentication provider" from require_auth(None)
        BadAlgorithm, // NotImplemented "X-Amz-Algorithm other than AWS4-HMAC-SHA256 is not implemented"
        Other,
    }

    fn classify(r: S3Result<CredentialsExt>) -> Outcome {
        let o = match &r {
            Ok(_) => Outcome::Other,
            Err(e) => match e.code() {
                S3ErrorCode::InvalidRequest => Outcome::Malformed,
                S3ErrorCode::RequestTimeTooSkewed => Outcome::TooSkewed,
                S3ErrorCode::AccessDenied => Outcome::Expired,
                S3ErrorCode::NotImplemented => match e.message() {
                    Some(m) if m.as_bytes()[0] == b'T' => Outcome::PassedWindow,
                    Some(m) if m.as_bytes()[0] == b'X' => Outcome::BadAlgorithm,
                    _ => Outcome::Other,
                },
                _ => Outcome::Other,
            },
        };
        core::mem::forget(r);
        o
    }

    fn run_v4(qs: &OrderedQs) -> Outcome {
        let method = Method::GET;
        let uri = Uri::default();
        let mut body = Body::empty();
        let mut cx = SignatureContext {
            auth: None,
            req_version: ::http::Version::HTTP_11,
            req_method: &method,
            req_uri: &uri,
            req_body: &mut body,
            qs: Some(qs),
            hs: OrderedHeaders::default(),
            decoded_uri_path: String::new(),
            vh_bucket: None,
            content_length: None,
            mime: None,
            decoded_content_length: None,
            transformed_body: None,
            multipart: None,
        };
        let r = poll_ready(cx.v4_check_presigned_url());
        let o = classify(r);
        core::mem::forget(cx);
        core::mem::forget(body);
        core::mem::forget(uri);
        o
    }

    const SIG: &str = "e3b0c44298fc1c149afbf4c8996fb92427ae41e4649b934ca495991b7852b855";

    fn dd(x: &[u8], i: usize) -> i64 {
        ((x[i] - b'0') as i64) * 10 + (x[i + 1] - b'0') as i64
    }

    /// C06 window.  Presigned query (already name-sorted) with X-Amz-Date = "201305" DD "T" HH MM SS "Z" where the
    /// digit pairs selected by `sym` = (DD, HH, MM, SS) are symbolic and the others are "15","12","30","00", and
    /// X-Amz-Expires = E symbolic decimal digits (leading zeros allowed); server clock any instant (nanosecond
    /// resolution) with month in April..June 2013 (`months`) or May, day in `days`, hour in `hours`.
    /// Reference written from the property statement, exact (integer seconds + the clock's nanoseconds):
    ///   malformed  <=> DD/HH/MM/SS is not a valid day of May / time of day, or Expires = 0
    ///   too skewed <=> now < date - 900 s
    ///   expired    <=> now > date + expires
    ///   otherwise the window test is passed (and with no auth provider the next step refuses with NotImplemented).
    fn v4_window<const E: usize>(months: bool, days: (u32, u32), hours: (u32, u32), sym: (bool, bool, bool, bool)) {
        let (now_s, now_ns) = any_now(months, days, hours);
        let mut date = *b"20130515T123000Z";
        let mut d = *b"15123000";
        let symv = [sym.0, sym.1, sym.2, sym.3];
        let mut i = 0;
        while i < 8 {
            if symv[i / 2] {
                let c: u8 = kani::any();
                kani::assume(c >= b'0' && c <= b'9');
                d[i] = c;
            }
            i += 1;
        }
        date[6] = d[0];
        date[7] = d[1];
        date[9] = d[2];
        date[10] = d[3];
        date[11] = d[4];
        date[12] = d[5];
        date[13] = d[6];
        date[14] = d[7];
        let e: [u8; E] = kani::any();
        let mut expires: i64 = 0;
        let mut i = 0;
        while i < E {
            kani::assume(e[i] >= b'0' && e[i] <= b'9');
            expires = expires * 10 + (e[i] - b'0') as i64;
            i += 1;
        }
        let v = vec![
            owned("X-Amz-Algorithm", "AWS4-HMAC-SHA256"),
            owned("X-Amz-Credential", "AK/20130524/us/s3/aws4_request"),
            owned("X-Amz-Date", core::str::from_utf8(&date).unwrap()),
            owned("X-Amz-Expires", core::str::from_utf8(&e).unwrap()),
            owned("X-Amz-Signature", SIG),
            owned("X-Amz-SignedHeaders", "host"),
        ];
        let qs = OrderedQs::kani_from_sorted_vec(v); // literal list above is sorted by name
        let got = run_v4(&qs);
        core::mem::forget(qs);

        let (day, hh, mm, ss) = (dd(&d, 0), dd(&d, 2), dd(&d, 4), dd(&d, 6));
        let valid = day >= 1 && day <= 31 && hh < 24 && mm < 60 && ss < 60 && expires > 0;
        let date_s = (day - 1) * 86400 + hh * 3600 + mm * 60 + ss;
        // now = now_s + now_ns/1e9 with 0 <= now_ns < 1e9:
        let before_window = now_s < date_s - 900; // now < date - 900 s
        let after_window = now_s > date_s + expires || (now_s == date_s + expires && now_ns > 0); // now > date + expires
        let want = if !valid {
            Outcome::Malformed
        } else if before_window {
            Outcome::TooSkewed
        } else if after_window {
            Outcome::Expired
        } else {
            Outcome::PassedWindow
        };
        assert!(got == want);
        kani::cover!(want == Outcome::TooSkewed);
        kani::cover!(want == Outcome::Expired);
        kani::cover!(valid && now_s == date_s - 900 && now_ns == 0); // boundary: exactly 15 min ahead is tolerated
        kani::cover!(valid && now_s == date_s + expires && now_ns == 0); // boundary: exactly at the expiry is accepted
    }

    macro_rules! v4_window_harness {
        ($name:ident, $e:expr, $months:expr, $days:expr, $hours:expr, $sym:expr) => {
            #[cfg(kani_unfinished)] // did not finish within the budget (see the C05/C06/C11 report); enable with --cfg kani_unfinished
            #[kani::proof]
            #[kani::solver(kissat)]
            #[kani::unwind(22)] // longest text compared/scanned: "X-Amz-SignedHeaders" (19 bytes)
            #[kani::stub(crate::utils::crypto::is_sha256_checksum, sha_shape_ok)]
            #[kani::stub(time::OffsetDateTime::now_utc, now_stub)]
            #[kani::stub(tracing::callsite::DefaultCallsite::interest, tr_interest)]
            #[kani::stub(tracing::__macro_support::__is_enabled, tr_is_enabled)]
            #[kani::stub(tracing::Event::dispatch, tr_dispatch)]
            #[kani::stub(tracing::Span::new, tr_span_new)]
            #[kani::stub(alloc::fmt::format, fmt_stub)]
            #[kani::stub(core::str::validations::run_utf8_validation, utf8_ok)]
            #[kani::stub(core::slice::memchr::memchr, naive_memchr)]
            #[kani::stub(core::arch::x86_64::__cpuid_count, cpuid_zero)]
            fn $name() {
                v4_window::<$e>($months, $days, $hours, $sym);
            }
        };
    }
    // minutes symbolic, expiry 0..=99 s; clock on the same day, hour 12, any minute/second, ns in {0, 1, 999999999}
    v4_window_harness!(c06_v4_window_tiny, 2, false, (15, 15), (12, 12), (false, false, true, false));
    // minutes symbolic; clock on the same day, hours 11..=13
    v4_window_harness!(c06_v4_window_min, 3, false, (15, 15), (11, 13), (false, false, true, false));
    // hours+minutes symbolic; clock on days 14..=16
    v4_window_harness!(c06_v4_window_hm, 3, false, (14, 16), (0, 23), (false, true, true, false));
    // everything symbolic, clock anywhere in April..June, expiry up to 999999 s
    v4_window_harness!(c06_v4_window_full, 6, true, (1, 31), (0, 23), (true, true, true, true));

    /// C06: X-Amz-Algorithm "AWS4-HMAC-SHA25" + one symbolic 7-bit byte: anything but '6' is refused with
    /// NotImplemented("X-Amz-Algorithm other than ...") before the window test; '6' goes on (here: passes the window,
    /// clock = signing time, and stops at the missing auth provider).
    #[cfg(kani_unfinished)] // did not finish within the budget (see the C05/C06/C11 report); enable with --cfg kani_unfinished
    #[kani::proof]
    #[kani::unwind(22)]
    #[kani::stub(crate::utils::crypto::is_sha256_checksum, sha_shape_ok)]
    #[kani::stub(time::OffsetDateTime::now_utc, now_stub)]
    #[kani::stub(tracing::callsite::DefaultCallsite::interest, tr_interest)]
    #[kani::stub(tracing::__macro_support::__is_enabled, tr_is_enabled)]
    #[kani::stub(tracing::Event::dispatch, tr_dispatch)]
    #[kani::stub(tracing::Span::new, tr_span_new)]
    #[kani::stub(alloc::fmt::format, fmt_stub)]
    #[kani::stub(core::str::validations::run_utf8_validation, utf8_ok)]
    #[kani::stub(core::slice::memchr::memchr, naive_memchr)]
    #[kani::stub(core::arch::x86_64::__cpuid_count, cpuid_zero)]
    fn c06_v4_presigned_algorithm() {
        N_MON.store(5, Relaxed);
        N_DAY.store(24, Relaxed);
        let mut alg = *b"AWS4-HMAC-SHA256";
        let c: u8 = kani::any();
        kani::assume(c < 128);
        alg[15] = c;
        let v = vec![
            owned("X-Amz-Algorithm", core::str::from_utf8(&alg).unwrap()),
            owned("X-Amz-Credential", "AK/20130524/us/s3/aws4_request"),
            owned("X-Amz-Date", "20130524T000000Z"),
            owned("X-Amz-Expires", "60"),
            owned("X-Amz-Signature", SIG),
            owned("X-Amz-SignedHeaders", "host"),
        ];
        let qs = OrderedQs::kani_from_sorted_vec(v);
        let got = run_v4(&qs);
        core::mem::forget(qs);
        if c == b'6' {
            assert!(got == Outcome::PassedWindow);
        } else {
            assert!(got == Outcome::BadAlgorithm);
        }
        kani::cover!(c == b'6');
        kani::cover!(c != b'6');
    }

    // -----------------------------------------------------------------------------------------------------------
    // C11: SigV2 presigned URL — accepted only while now <= Expires
    // -----------------------------------------------------------------------------------------------------------
    fn run_v2(qs: &OrderedQs) -> Outcome {
        let method = Method::GET;
        let uri = Uri::default();
        let mut body = Body::empty();
        let mut cx = SignatureContext {
            auth: None,
            req_version: ::http::Version::HTTP_11,
            req_method: &method,
            req_uri: &uri,
            req_body: &mut body,
            qs: Some(qs),
            hs: OrderedHeaders::default(),
            decoded_uri_path: String::new(),
            vh_bucket: None,
            content_length: None,
            mime: None,
            decoded_content_length: None,
            transformed_body: None,
            multipart: None,
        };
        let r = poll_ready(cx.v2_check_presigned_url());
        let o = classify(r);
        core::mem::forget(cx);
        core::mem::forget(body);
        core::mem::forget(uri);
        o
    }

    /// 2013-05-01T00:00:00Z as a Unix timestamp (15826 days * 86400).
    const MAY1_2013: i64 = 1_367_366_400;

    /// Presigned V2 query AWSAccessKeyId=AK & Expires="136" + (7-E) times '7' + E symbolic digits & Signature=abc;
    /// server clock any instant with month April..June 2013 (`months`) or May, day in `days`, hour in `hours`.  Reference: expired (AccessDenied) iff now > Expires (exact,
    /// with the clock's nanoseconds), otherwise the check goes on to the secret lookup (NotImplemented without provider).
    fn v2_window<const E: usize>(months: bool, days: (u32, u32), hours: (u32, u32)) {
        let (now_rel, now_ns) = any_now(months, days, hours);
        let now_s = MAY1_2013 + now_rel;
        let mut text = [b'0'; 10];
        text[0] = b'1';
        text[1] = b'3';
        text[2] = b'6';
        let mut expires: i64 = 136;
        let mut i = 3;
        while i < 10 {
            if i >= 10 - E {
                let c: u8 = kani::any();
                kani::assume(c >= b'0' && c <= b'9');
                text[i] = c;
            } else {
                text[i] = b'7';
            }
            expires = expires * 10 + (text[i] - b'0') as i64;
            i += 1;
        }
        let v = vec![
            owned("AWSAccessKeyId", "AK"),
            owned("Expires", core::str::from_utf8(&text).unwrap()),
            owned("Signature", "abc"),
        ];
        let qs = OrderedQs::kani_from_sorted_vec(v);
        let got = run_v2(&qs);
        core::mem::forget(qs);
        let expired = now_s > expires || (now_s == expires && now_ns > 0);
        let want = if expired { Outcome::Expired } else { Outcome::PassedWindow };
        assert!(got == want);
        kani::cover!(expired);
        kani::cover!(!expired);
        kani::cover!(now_s == expires && now_ns == 0); // boundary: exactly at Expires is still accepted
    }

    macro_rules! v2_window_harness {
        ($name:ident, $e:expr, $months:expr, $days:expr, $hours:expr) => {
            #[cfg(kani_unfinished)] // did not finish within the budget (see the C05/C06/C11 report); enable with --cfg kani_unfinished
            #[kani::proof]
            #[kani::unwind(22)] // i64::from_str digit loop (10 digits), "AWSAccessKeyId" (14 bytes)
            #[kani::stub(time::OffsetDateTime::now_utc, now_stub)]
            #[kani::stub(tracing::callsite::DefaultCallsite::interest, tr_interest)]
            #[kani::stub(tracing::__macro_support::__is_enabled, tr_is_enabled)]
            #[kani::stub(tracing::Event::dispatch, tr_dispatch)]
            #[kani::stub(tracing::Span::new, tr_span_new)]
            #[kani::stub(alloc::fmt::format, fmt_stub)]
            #[kani::stub(core::str::validations::run_utf8_validation, utf8_ok)]
            #[kani::stub(core::slice::memchr::memchr, naive_memchr)]
            #[kani::stub(core::arch::x86_64::__cpuid_count, cpuid_zero)]
            fn $name() {
                v2_window::<$e>($months, $days, $hours);
            }
        };
    }
    // Expires = 136777dddd = 2013-05-05T16:06:40Z .. 18:53:19Z; clock on May 5, hours 15..=19
    v2_window_harness!(c11_v2_window_4digits, 4, false, (5, 5), (15, 19));
    // Expires = 1367dddddd = 2013-04-26 .. 2013-05-08; clock anywhere in April..June
    v2_window_harness!(c11_v2_window_6digits, 6, true, (1, 31), (0, 23));

    // -----------------------------------------------------------------------------------------------------------
    // Fallback for the full C06 window range: the ARITHMETIC of ops/signature.rs lines 213-236 replayed on the same
    // library calls (AmzDate::parse + to_time, OffsetDateTime - OffsetDateTime, Duration::is_negative/abs/compare,
    // Duration::new for the expiry as parse_expires builds it), without the query-string container.  Claim: the
    // `time` computations the function performs give the reference window for EVERY X-Amz-Date in May 2013, every
    // clock instant in April..June 2013 and every expiry 1..=u32::MAX; the function-level harnesses above show that
    // the real function is wired to exactly these computations on their (smaller) ranges.
    // -----------------------------------------------------------------------------------------------------------
    /// `full`: X-Amz-Date 201305DDTHHMMSSZ all 8 digits symbolic, clock anywhere in April..June 2013, expiry any u32 > 0
    /// (did NOT finish: 526 k variables, final UNSAT query > 10 min).  Reduced: X-Amz-Date 20130515T12MMSSZ (4 symbolic
    /// digits), clock 2013-05-15 hour 11..=13, any minute/second, ns in {0, 1, 999999999}, expiry 1..=99999 s.
    fn window_arithmetic(full: bool) {
        let (now_s, now_ns) = if full { any_now(true, (1, 31), (0, 23)) } else { any_now(false, (15, 15), (11, 13)) };
        if !full {
            kani::assume(now_ns == 0 || now_ns == 1 || now_ns == 999_999_999);
        }
        let mut date = *b"20130501T000000Z";
        let d: [u8; 8] = kani::any();
        let mut i = 0;
        while i < 8 {
            kani::assume(d[i] >= b'0' && d[i] <= b'9');
            i += 1;
        }
        if !full {
            kani::assume(d[0] == b'1' && d[1] == b'5' && d[2] == b'1' && d[3] == b'2');
        }
        date[6] = d[0];
        date[7] = d[1];
        date[9] = d[2];
        date[10] = d[3];
        date[11] = d[4];
        date[12] = d[5];
        date[13] = d[6];
        date[14] = d[7];
        let x: u32 = kani::any();
        kani::assume(x > 0);
        if !full {
            kani::assume(x <= 99_999);
        }
        let expires_d = time::Duration::new(i64::from(x), 0); // as parse_expires (harnessed in presigned_url_v4.rs)
        let expires = x as i64;

        // ---- the statements of v4_check_presigned_url, lines 213-236 ----
        let amz_date = AmzDate::parse(core::str::from_utf8(&date).unwrap()).ok().unwrap();
        let now = now_stub();
        let got = match amz_date.to_time() {
            None => Outcome::Malformed,
            Some(date) => {
                let duration = now - date;
                let max_skew_time = time::Duration::seconds(15 * 60);
                if duration.is_negative() && duration.abs() > max_skew_time {
                    Outcome::TooSkewed
                } else if duration > expires_d {
                    Outcome::Expired
                } else {
                    Outcome::PassedWindow
                }
            }
        };
        // ---- reference ----
        let (day, hh, mm, ss) = (dd(&d, 0), dd(&d, 2), dd(&d, 4), dd(&d, 6));
        let valid = day >= 1 && day <= 31 && hh < 24 && mm < 60 && ss < 60;
        let date_s = (day - 1) * 86400 + hh * 3600 + mm * 60 + ss;
        let before_window = now_s < date_s - 900;
        let after_window = now_s > date_s + expires || (now_s == date_s + expires && now_ns > 0);
        let want = if !valid {
            Outcome::Malformed
        } else if before_window {
            Outcome::TooSkewed
        } else if after_window {
            Outcome::Expired
        } else {
            Outcome::PassedWindow
        };
        assert!(got == want);
        kani::cover!(want == Outcome::TooSkewed);
        kani::cover!(want == Outcome::Expired);
        kani::cover!(valid && now_s == date_s - 900 && now_ns == 0);
        kani::cover!(valid && now_s == date_s + expires && now_ns == 0);
    }

    #[kani::proof]
    #[kani::unwind(18)]
    #[kani::stub(core::str::validations::run_utf8_validation, utf8_ok)]
    fn c06_v4_window_arithmetic_reduced() {
        window_arithmetic(false);
    }
}
