// in-crate Kani harnesses included into the real crate under cfg(kani) (see MANIFEST.hooks)

// C05 / C06: the header-value canonicaliser (push_canonical_header_value), decided on every value of N bytes over
// {SP, HTAB, 'a', 'b'} against the SigV4 rule: surrounding white space removed, sequential SPACES converted to one space,
// every other byte (a horizontal tab inside the value included) kept as it is.
#[allow(clippy::all, clippy::pedantic, dead_code, unused_imports, unused_variables)]
mod verif_kani_hv {
    use super::*;

    pub fn naive_memchr(x: u8, text: &[u8]) -> Option<usize> {
        let mut i = 0;
        while i < text.len() {
            if text[i] == x {
                return Some(i);
            }
            i += 1;
        }
        None
    }

    fn ws(c: u8) -> bool {
        c == b' ' || c == b'\t'
    }

    fn ref_canon(v: &[u8], out: &mut [u8; 8]) -> usize {
        let mut s = 0;
        let mut e = v.len();
        while s < e && ws(v[s]) {
            s += 1;
        }
        while e > s && ws(v[e - 1]) {
            e -= 1;
        }
        let mut n = 0;
        let mut prev_sp = false;
        let mut i = s;
        while i < e {
            let c = v[i];
            if c == b' ' {
                if !prev_sp {
                    out[n] = c;
                    n += 1;
                }
                prev_sp = true;
            } else {
                out[n] = c;
                n += 1;
                prev_sp = false;
            }
            i += 1;
        }
        n
    }

    fn run<const N: usize>() {
        let v: [u8; N] = kani::any();
        let mut i = 0;
        while i < N {
            kani::assume(v[i] == b' ' || v[i] == b'\t' || v[i] == b'a' || v[i] == b'b');
            i += 1;
        }
        let s = match core::str::from_utf8(&v) {
            Ok(s) => s,
            Err(_) => return,
        };
        let mut ans = String::with_capacity(16);
        push_canonical_header_value(&mut ans, s);
        let mut want = [0u8; 8];
        let n = ref_canon(&v, &mut want);
        let got = ans.as_bytes();
        assert!(got.len() == n, "canonical header value has the length the SigV4 rule gives");
        let mut j = 0;
        while j < n && j < got.len() {
            assert!(got[j] == want[j], "canonical header value equals the SigV4 rule's, byte for byte");
            j += 1;
        }
        kani::cover!(n > 0 && n < N);
        core::mem::forget(ans);
    }

    #[kani::proof]
    #[kani::unwind(8)]
    #[kani::stub(core::slice::memchr::memchr, naive_memchr)]
    fn c05_hv_canon_3() {
        run::<3>();
    }

    #[kani::proof]
    #[kani::unwind(8)]
    #[kani::stub(core::slice::memchr::memchr, naive_memchr)]
    fn c05_hv_canon_4() {
        run::<4>();
    }

    #[kani::proof]
    #[kani::unwind(9)]
    #[kani::stub(core::slice::memchr::memchr, naive_memchr)]
    fn c05_hv_canon_5() {
        run::<5>();
    }
}
